"""TRM — progress of front-end loops and recursion (DESIGN §4.6)."""
from mirlib import *
from rules import psc
from rules.psc import sym, facts_at, strip
from rules.tables import TOKEN

P = "parser::Parser::<'a>::"
ADV = P + 'advance'
STD_ITER_NEXT = ('Iterator>::next', 'Iterator>::next_back', '::iterator::Iterator for core::ops::range::Range<A>>::next',
                 'DoubleEndedIterator>::next_back')


def sentinel_token(F):
    """the token the parser substitutes for end of input: unwrap_or(Token::X) in Parser::advance"""
    fn = F.fn(ADV)
    for b, t in fn.calls():
        if callee_name(t).endswith('::unwrap_or'):
            v = sym(fn, t['args'][1])
            if v[0] == 'enum':
                return v[2]
            if v[0] == 'agg':
                return v[2]
    # written out: `match self.tokenizer.next() { Some(t) => t, None => Token::X }` - on the path where next() answered None, the
    # token stored as the current one
    for p in AbsInt(F, fn, max_paths=200).run():
        if p.exit != 'return':
            continue
        none_path = any(c[0][0] == 'variant' and 'option::Option' in str(c[0][2]) and c[1] == 'None' and 'Iterator>::next' in str(c[0][3:]) for c in p.constraints)
        if not none_path:
            continue
        for w in p.writes:
            v = simp(w[2])
            if isinstance(v, tuple) and v and v[0] == 'agg' and v[1] == TOKEN:
                return v[2]
            if isinstance(v, tuple) and v and v[0] == 'enum' and v[1] == TOKEN:
                return v[2]
        for k, v in p.env.items():
            if k.startswith('_1.*.f') and isinstance(v, tuple) and v and v[0] in ('agg', 'enum') and v[1] == TOKEN:
                return v[2]
    raise CheckerError('TRM: cannot find the end-of-input sentinel (unwrap_or in Parser::advance)')


def error_blocks(fn):
    """blocks that set the return place to Err(..) / a propagated residual"""
    out = set()
    for b, si, st in fn.stmts():
        if st['k'] == 'assign' and st['place']['local'] == 0 and not st['place']['proj']:
            rv = st['rv']
            if rv['k'] == 'aggregate' and rv.get('variant') == 'Err':
                out.add(b)
    for b, t in fn.calls():
        if t['dest']['local'] == 0 and 'from_residual' in callee_name(t):
            out.add(b)
    return out


def current_token_guard(F, fn, block, sentinel):
    """a dominating branch established that the current token is not the end-of-input sentinel; returns the edge target"""
    names = {d: n for n, d in F.enum_variants(TOKEN)}
    sd = [d for n, d in F.enum_variants(TOKEN) if n == sentinel][0]
    res = []
    for f in facts_at(fn, block):
        if f[0] == 'variant' and f[2] == TOKEN and 'current_token' in str(f[1]):
            vals = f[3]
            if None not in vals and sd not in vals:
                res.append((f[4], f[5]))
            elif None in vals:
                # otherwise-edge: the sentinel must be one of the explicit values of that switch
                pass
        elif f[0] == 'callbool':
            c, tv = f[1], f[2]
            if c[1].endswith('PartialEq>::eq') or c[1].endswith('PartialEq::ne') or c[1].endswith('PartialEq>::ne') or c[1].endswith('PartialEq::eq'):
                is_ne = c[1].endswith('ne')
                args = [strip(a) for a in c[2]]
                if not any('current_token' in str(a) for a in args):
                    continue
                other = [a for a in args if 'current_token' not in str(a)]
                tok = None
                for a in other:
                    s_ = str(a)
                    if a[0] in ('enum', 'agg'):
                        tok = a[2]
                    elif a[0] == 'deref' and a[1][0] == 'promoted':
                        tok = promoted_token(fn, a[1][1])
                    elif a[0] == 'promoted':
                        tok = promoted_token(fn, a[1])
                    elif a[0] == 'param':
                        tok = ('param', a[1])
                if tok is None:
                    continue
                equal = (tv and not is_ne) or ((not tv) and is_ne)
                if tok == sentinel and not equal:
                    res.append((f[3], f[4]))
                elif tok != sentinel and equal and not isinstance(tok, tuple):
                    res.append((f[3], f[4]))
    return res


def promoted_token(fn, idx):
    for p in fn.j.get('promoted') or []:
        if p['i'] == idx:
            for bl in p['blocks']:
                for st in bl['stmts']:
                    if st['k'] == 'assign' and st['rv']['k'] == 'aggregate' and st['rv'].get('adt') == TOKEN:
                        return st['rv']['variant']
    return None


class Progress:
    def __init__(self, ctx):
        self.ctx = ctx
        self.F = ctx.facts()
        self.sentinel = sentinel_token(self.F)
        self.parser_fns = [f for f in self.F.all_fns if f.crate == 'lib' and (f.path.startswith(P) or f.path == 'parser::parse')]
        self.strict = set()
        self.uncond = {ADV}
        self.solve()

    def consuming_calls(self, fn):
        return [(b, callee_name(t)) for b, t in fn.calls() if callee_name(t) in self.uncond or callee_name(t) in self.strict
                or callee_name(t) in (P + 'skip', P + 'skip_optional')]

    def guarded(self, fn, b):
        edges = current_token_guard(self.F, fn, b, self.sentinel)
        if not edges:
            return False
        cons = self.consuming_calls(fn)
        for tb, d in edges:
            ok = True
            # paths that pass the guard again (loop back edges) re-establish it: only look at paths avoiding the guard block
            reach_from = fn.reachable(tb, stop={d})
            for cb, cn in cons:
                if cb != b and cb in reach_from and b in fn.reachable(cb, stop={d}):
                    ok = False
            if ok:
                return True
        return False

    def progress_blocks(self, fn):
        out = set()
        for b, t in fn.calls():
            n = callee_name(t)
            if n in self.strict:
                out.add(b)
            elif n == P + 'skip':
                a = sym(fn, t['args'][1])
                tok = a[2] if a[0] in ('enum', 'agg') else None
                if tok is not None and tok != self.sentinel:
                    out.add(b)
            elif n in self.uncond:
                if self.guarded(fn, b):
                    out.add(b)
        return out

    def all_ok_paths_pass(self, fn, blocks):
        # an Err/None built here and handed to `?` further on is an error path too (header None: the whole function)
        stop = set(blocks) | error_blocks(fn) | error_then_try(fn, None, range(len(fn.blocks)))
        reach = fn.reachable(0, stop=stop)
        for b in reach:
            if fn.term(b)['k'] == 'return':
                return False
        return True

    def solve(self):
        changed = True
        while changed:
            changed = False
            for fn in self.parser_fns:
                if fn.path == ADV:
                    continue
                if fn.path not in self.uncond:
                    ub = {b for b, t in fn.calls() if callee_name(t) in self.uncond}
                    if ub and self.all_ok_paths_pass(fn, ub):
                        self.uncond.add(fn.path)
                        changed = True
                if fn.path not in self.strict:
                    pb = self.progress_blocks(fn)
                    if pb and self.all_ok_paths_pass(fn, pb):
                        self.strict.add(fn.path)
                        changed = True


def _positive_unsigned(v, depth=0):
    """v (an expression over values of one unsigned type) is at least 1: a positive constant, or a sum with such a term"""
    v = strip(v)
    if v[0] == 'checked':
        v = ('binop', v[1], v[2], v[3])
    if v[0] == 'int':
        return v[1] > 0
    if v[0] == 'binop' and v[1] == 'Add' and depth < 6:
        return _positive_unsigned(v[2], depth + 1) or _positive_unsigned(v[3], depth + 1)
    return False


def counted_progress(fn, header, body):
    """blocks that step a loop counter: a local that, inside the loop, is only ever decreased (or only ever increased) by a
    positive constant, and that an exit test of the loop compares (with a loop-invariant bound when it counts up).  Passing
    such a block strictly decreases the distance to the exit, so a cycle through it cannot repeat forever."""
    body = set(body)
    out = set()
    defs = fn.defs()
    exit_conds = []
    for b in body:
        t = fn.term(b)
        if t['k'] == 'switch':
            outs = [x[1] for x in t['targets']] + [t['otherwise']]
            if any(o not in body for o in outs):
                exit_conds.append(sym(fn, t['op']))
    for l, ds in defs.items():
        inside = [d for d in ds if d[1] in body]
        if not inside or not any(d[1] not in body for d in ds) and not (1 <= l <= fn.arg_count):
            continue
        kinds = set()
        steps = set()
        for d in inside:
            k = None
            if d[0] == 'assign':
                v = strip(psc.sym_rv(fn, d[3]))
                if v[0] == 'binop' and v[1] in ('Sub', 'Add') and strip(v[2]) == ('mlocal', l) and strip(v[3])[0] == 'int' and strip(v[3])[1] > 0:
                    k = v[1]
                    steps.add(strip(v[3])[1])
                elif v[0] == 'binop' and v[1] == 'Add' and strip(v[2]) == ('mlocal', l) and (fn.local_ty(l) or '') in ('usize', 'u8', 'u16', 'u32', 'u64') \
                        and _positive_unsigned(strip(v[3])):
                    # `pos += 1 + width`: a sum of unsigned values one of which is a positive constant
                    k = 'Add'
                    steps.add('var')
            kinds.add(k)
        if len(kinds) != 1 or None in kinds:
            continue
        kind = next(iter(kinds))
        ok = False
        for c in exit_conds:
            while c[0] == 'unop' and c[1] == 'Not':
                c = c[2]
            if c[0] != 'binop' or c[1] not in ('Lt', 'Le', 'Gt', 'Ge', 'Ne', 'Eq'):
                continue
            a, b_ = strip(c[2]), strip(c[3])
            if kind == 'Sub' and (a == ('mlocal', l) or b_ == ('mlocal', l)):
                other = b_ if a == ('mlocal', l) else a
                if not any(d2[1] in body for m_ in psc.mlocals(other) for d2 in defs.get(m_, [])):
                    ok = True
            if kind == 'Add' and (c[1] in ('Lt', 'Le', 'Gt', 'Ge') or (c[1] in ('Ne', 'Eq') and steps == {1})) and (a == ('mlocal', l) or b_ == ('mlocal', l)):
                other = b_ if a == ('mlocal', l) else a
                if not any(d2[1] in body for m_ in psc.mlocals(other) for d2 in defs.get(m_, [])):
                    ok = True
        if ok:
            out |= {d[1] for d in inside}
    return out


SHRINK = ('Vec::<T, A>::pop', 'Vec::<T, A>::remove', 'Vec::<T, A>::swap_remove', 'String::pop', 'VecDeque::<T, A>::pop_front', 'VecDeque::<T, A>::pop_back')


def _len_container(F, fn, c, depth=0):
    """the container whose length the (exit) condition c tests: directly, or through a small local predicate such as
    `in_function()` whose single return value is a comparison of the length of a field of its argument"""
    while c[0] == 'unop' and c[1] == 'Not':
        c = c[2]
    if c[0] == 'binop' and c[1] in ('Lt', 'Le', 'Gt', 'Ge', 'Ne', 'Eq'):
        for x in (strip(c[2]), strip(c[3])):
            if x[0] == 'len':
                return psc.unref(x[1])
        return None
    if c[0] == 'call' and depth == 0 and len(c[2]) == 1 and c[1] in F.fns and len(F.fns[c[1]].blocks) <= 12:
        g = F.fns[c[1]]
        rs = [r for p_, r in ret_exprs(F, g)]
        if len(rs) == 1 and rs[0] and rs[0][0] == 'binop':
            for x in (uncast(rs[0][2]), uncast(rs[0][3])):
                if x[0] == 'call' and x[1] in psc.LEN_FNS and x[2]:
                    a = uncast(x[2][0])
                    # &(*_1).field
                    if a[0] == 'ref' and a[1].startswith('_1.*.f') and a[1][6:].isdigit():
                        ty = g.local_ty(1).replace("&'{erased} mut ", '').replace("&'{erased} ", '')
                        adt = F.adts.get(ty)
                        if adt and adt['kind'] == 'Struct':
                            fname = adt['variants'][0]['fields'][int(a[1][6:])]['name']
                            base = psc.unref(c[2][0])
                            return ('field', ('deref', base) if base[0] == 'param' else base, fname)
    return None


def shrinking_progress(F, fn, header, body):
    """blocks that remove an element from the container whose length the loop's exit test compares: the length strictly
    decreases, so the loop cannot pass such a block forever"""
    body = set(body)
    conts = []
    for b in body:
        t = fn.term(b)
        if t['k'] == 'switch':
            outs = [x[1] for x in t['targets']] + [t['otherwise']]
            if any(o not in body for o in outs):
                x = _len_container(F, fn, sym(fn, t['op']))
                if x is not None:
                    conts.append(x)
    out = set()
    if not conts:
        return out

    def norm(v):
        v = psc.unref(v)
        if v[0] == 'field' and v[1][0] == 'deref':
            return ('field', psc.unref(v[1][1]), v[2])
        if v[0] == 'field':
            return ('field', psc.unref(v[1]), v[2])
        return v
    for b, t in fn.calls(body):
        n = callee_name(t)
        if any(n.endswith(s) for s in SHRINK) and t['args']:
            r = norm(sym(fn, t['args'][0]))
            if any(norm(c) == r for c in conts):
                out.add(b)
    return out


GROW = ('::push', '::extend', '::extend_from_slice', '::append', '::insert', '::push_back', '::push_front')


def worklist_progress(fn, header, body):
    """a work-list loop: `while let Some(x) = pending.pop() { .. pending.extend(children) .. }`.  The list is popped every turn
    and may grow again - but only on turns that first took an element out of another container C which the loop never grows:
    the pair (|C|, |pending|) decreases lexicographically, so the loop ends.  The pop is then a progress point."""
    body = set(body)
    out = set()

    def recv(t):
        return psc.unref(sym(fn, t['args'][0])) if t['args'] else None
    pops = [(b, t) for b, t in fn.calls(body) if callee_name(t).startswith('alloc::vec::Vec') and callee_name(t).endswith('::pop')]
    for pb, pt in pops:
        L = recv(pt)
        grows = [(b, t) for b, t in fn.calls(body) if callee_name(t).startswith(('alloc::vec::Vec', '<alloc::vec::Vec')) and callee_name(t).endswith(GROW) and recv(t) == L]
        if not grows:
            continue
        removes = [(b, t) for b, t in fn.calls(body) if callee_name(t).startswith('alloc::vec::Vec') and callee_name(t).endswith(('::swap_remove', '::remove', '::pop'))
                   and recv(t) != L]
        ok = bool(removes)
        for gb, gt in grows:
            # every way from the loop header to the growth passes a removal from a container the loop never grows
            cs = [rb for rb, rt in removes if not any(recv(t2) == recv(rt) for b2, t2 in fn.calls(body)
                                                       if callee_name(t2).startswith(('alloc::vec::Vec', '<alloc::vec::Vec')) and callee_name(t2).endswith(GROW))]
            if not cs or gb in fn.reachable(header, stop=set(cs) | (set(range(len(fn.blocks))) - body)):
                ok = False
        if not ok:
            ok = _visited_protocol(fn, header, body, grows)
        if ok:
            out.add(pb)
    return out


def _norm_promoted(fn, v):
    """repr of a symbolic value with each promoted constant replaced by what it holds (two `== Type::Array` tests use two promoteds)"""
    import re as _re
    from rules.unsafe_inv import _enum_of_promoted

    def sub(x):
        if isinstance(x, tuple):
            if len(x) == 2 and x[0] == 'promoted':
                try:
                    e_ = _enum_of_promoted(fn, x)
                except Exception:
                    e_ = None
                return ('promoted-value', e_) if e_ is not None else ('promoted', '?')
            return tuple(sub(y) for y in x)
        return x
    return _re.sub(r'@bb\d+|, \d+\)$', '', repr(sub(v)))


def _visited_protocol(fn, header, body, grows):
    """the other way a work list ends: the list grows only on turns that MARK something not marked before.  Every way from the loop
    header to a growth passes a marking write on a container C (bitmap `set`, set `insert`), every way to that write passes a read
    of C (`get`, `contains`), and a branch computed from that read leads back to the header without marking or growing (the
    `already seen: skip` exit).  Marks are never cleared in the loop, C is finite, so only finitely many turns grow the list."""
    from rules.shared import LocalFlow
    MARK = ('::set_unchecked', 'BitSlice<T, O>::set', '::insert', '::set')
    READ = ('::get_unchecked', '::get', '::contains', '::insert')
    CLEAR = ('::clear', '::remove', '::fill', '::truncate', '::set_elements')

    def recv(t):
        v = psc.unref(sym(fn, t['args'][0])) if t['args'] else None
        for _ in range(4):
            if isinstance(v, tuple) and v and v[0] == 'call' and v[1].endswith(('::deref', '::deref_mut', '::as_mut_bitslice', '::as_bitslice')) and v[2]:
                v = psc.unref(v[2][0])
        return v
    outside = set(range(len(fn.blocks))) - body
    marks = [(b, t) for b, t in fn.calls(body) if callee_name(t).endswith(MARK) and ('bitvec' in callee_name(t) or 'HashSet' in callee_name(t) or 'BTreeSet' in callee_name(t) or 'BitSlice' in callee_name(t))]
    if not marks:
        return False
    lf = LocalFlow(fn)
    for gb, gt in grows:
        found = False
        for mb, mt in marks:
            C = recv(mt)
            if gb in fn.reachable(header, stop={mb} | outside):
                continue          # a way to the growth that marks nothing
            if any(callee_name(t).endswith(CLEAR) and recv(t) == C for b, t in fn.calls(body)):
                continue
            reads = [(b, t) for b, t in fn.calls(body) if callee_name(t).endswith(READ) and recv(t) == C and b != mb]
            for rb, rt in reads:
                if mb in fn.reachable(header, stop={rb} | outside):
                    # the write can be reached without the read (`is_array && bitmap[slot]` reads only for arrays): fine when
                    # whatever guards the read also guards the growth - a turn that grows the list did make the read
                    def guard_set(blk):
                        out_ = set()
                        for f in psc.facts_at(fn, blk):
                            if f[0] == 'callbool':
                                out_.add(('callbool', _norm_promoted(fn, strip(f[1])), f[2]))
                            elif f[0] in ('Lt', 'Le', 'Gt', 'Ge', 'Eq', 'Ne'):
                                out_.add((f[0], repr(strip(f[1])), repr(strip(f[2]))))
                            elif f[0] == 'variant':
                                out_.add(('variant', repr(strip(f[1])), repr(f[3])))
                        return out_
                    if not (guard_set(rb) and guard_set(rb) <= guard_set(gb)):
                        continue
                fed = lf.forward(rt['dest']['local'])
                for sb in body:
                    tt = fn.term(sb)
                    if tt['k'] == 'switch' and op_base_local(tt.get('op')) in fed:
                        if any(header in fn.reachable(x, stop={mb, gb} | outside) | {x} for x in fn.succ(sb) if x in body):
                            found = True
            if found:
                break
        if not found:
            return False
    return True


def reslice_progress(fn, header, body):
    """blocks of a loop that replace the text being searched by a strictly shorter tail of itself: `rest = &rest[at + k..]` with
    k >= 1 (a constant, or the length of the pattern that was found): every turn of the loop that passes such a block has
    consumed at least one byte of a finite text"""
    out = set()
    from rules.shared import LocalFlow
    lf = None
    for b, t in fn.calls(body):
        n = callee_name(t)
        if not (psc.is_index_call(n) and 'for str' in n and len(t['args']) == 2):
            continue
        d = fn.def_rvalue(t['args'][1])
        if not (d and d[0] == 'assign' and d[3]['k'] == 'aggregate' and str(d[3].get('adt', '')).endswith('RangeFrom') and d[3]['ops']):
            continue
        st = sym(fn, d[3]['ops'][0])
        if st[0] == 'checked':
            st = ('binop', st[1], st[2], st[3])
        if not (st[0] == 'binop' and st[1] == 'Add'):
            continue
        k = strip(st[3])
        grows = (k[0] == 'int' and k[1] >= 1) or (k[0] == 'len') or (k[0] == 'call' and k[1].endswith('str>::len'))
        if not grows:
            continue
        # the tail goes back into a variable of the loop (assigned more than once: before the loop and here)
        lf = lf or LocalFlow(fn)
        fwd = lf.forward(t['dest']['local'])
        if any(len(fn.defs().get(l, [])) > 1 for l in fwd):
            out.add(b)
    return out


def error_then_try(fn, header, body):
    """blocks that build an `Err(..)` / `None` which the rest of the turn hands to `?`: the turn ends in a return, it cannot come
    back to the loop header.  (After a closure or helper was spliced in, its error exit and its success exit meet in one block
    before the `?`; without this the control-flow graph contains a way round the loop that no execution takes.)"""
    from rules.shared import LocalFlow
    body = set(body)
    out = set()
    lf = None
    branches = [(b, t) for b, t in fn.calls(body) if callee_name(t).endswith('Try>::branch') and t['args']]
    if not branches:
        return out
    for b in sorted(body):
        for st in fn.blocks[b]['stmts']:
            if st['k'] != 'assign' or st['place']['proj']:
                continue
            rv = st['rv']
            if not (rv['k'] == 'aggregate' and rv.get('variant') in ('Err', 'None') and str(rv.get('adt', '')).endswith(('result::Result', 'option::Option'))):
                continue
            lf = lf or LocalFlow(fn)
            L = st['place']['local']
            M = lf.forward(L)
            for cb, ct in branches:
                a = op_base_local(ct['args'][0])
                if a not in M:
                    continue
                # every way from b back to the header passes this `?`
                between = fn.reachable(b, stop={cb} | (set(range(len(fn.blocks))) - body))
                if header is None:
                    if any(fn.term(x)['k'] == 'return' for x in between):
                        continue
                elif header in between - {b}:
                    continue
                # nothing else writes the carried value on the way
                clean = True
                for x in between:
                    if x == b:
                        continue
                    for st2 in fn.blocks[x]['stmts']:
                        if st2['k'] == 'assign' and st2['place']['local'] in M and not (LocalFlow.locals_of(st2['rv']) & M):
                            clean = False
                    t2 = fn.term(x)
                    if t2['k'] == 'call' and t2['dest']['local'] in M and x != cb:
                        clean = False
                if clean:
                    out.add(b)
    return out


def cycle_without(fn, header, body, removed):
    """is there a cycle through `header` inside `body` that avoids the `removed` blocks"""
    if header in removed:
        return None
    allowed = set(body) - set(removed)
    # DFS from header's successors back to header
    stack = [(s, [header, s]) for s in fn.succ(header) if s in allowed]
    seen = set()
    while stack:
        n, path = stack.pop()
        if n == header:
            return path
        if n in seen:
            continue
        seen.add(n)
        for s in fn.succ(n):
            if s == header:
                return path + [header]
            if s in allowed and s not in seen:
                stack.append((s, path + [s]))
    return None


def check(ctx, rep, rule):
    F = ctx.facts()
    pr = Progress(ctx)
    rep.table('strict_consumers', sorted(x.replace(P, '') for x in pr.strict))
    rep.table('end_of_input_sentinel', pr.sentinel)
    reach = psc.reachable(ctx, with_bin=False)
    nloops = 0
    exempt = {'vm::VM::run': 'the dispatch loop runs exactly as long as the program says (not decided)',
              'compiler::bytecode_to_human': 'debug pretty-printer, not reachable from the entry points'}
    for key in sorted(reach):
        fn = F.fns[key]
        if fn.crate != 'lib':
            continue
        loops = fn.natural_loops()
        if not loops:
            continue
        if key in exempt:
            rep.note('TRM: loops of %s exempt: %s' % (key, exempt[key]))
            continue
        parser_progress = pr.progress_blocks(fn) if (key.startswith(P) or key == 'parser::parse') else set()
        ordn = 0
        for header, body in loops:
            ordn += 1
            nloops += 1
            removed = set(parser_progress)
            for b, t in fn.calls(body):
                n = callee_name(t)
                if any(n.endswith(s) for s in STD_ITER_NEXT) and not n.startswith('<lexer::'):
                    removed.add(b)
                if n == "lexer::Tokenizer::<'a>::skip_while" and len(t['args']) == 2:
                    # a scan started on a non-empty literal prefix whose first character the predicate accepts consumes it
                    for f in facts_at(fn, b):
                        if f[0] == 'callbool' and f[1][1].endswith('::starts_with') and f[2] is True and 'offset' in str(f[1][2][0]) and len(f[1][2]) == 2:
                            import re as _re
                            m_ = _re.search(r'"(.+)"', str(f[1][2][1]))
                            d_ = fn.def_rvalue(t['args'][1])
                            if m_ and d_ and d_[0] == 'assign' and d_[3].get('closure'):
                                from rules import c08 as _c08
                                tb_ = _c08.closure_table(F, d_[3]['closure'], [m_.group(1)[0]])
                                if tb_ and all(v_[0] == 1 for v_ in tb_.values()):
                                    removed.add(b)
                if n == "lexer::Tokenizer::<'a>::bump" and t.get('target') is not None:
                    # `self.bump()?` / `match self.bump() { None => return .. }`: the loop only goes on with a character in hand
                    d_ = t['dest']['local']
                    for sb in sorted(fn.reachable(t['target'], stop={header}) & set(body)):
                        tt = fn.term(sb)
                        if tt['k'] != 'switch':
                            continue
                        c_ = sym(fn, tt['op'])
                        if c_[0] == 'discr' and "Tokenizer::<'a>::bump" in str(c_[1]) and fn.dominates(b, sb):
                            # which discriminant values stay inside the loop
                            stay = [v_ for v_, tb in tt['targets'] if tb in body and header in fn.reachable(tb)]
                            other_stays = tt['otherwise'] in body and header in fn.reachable(tt['otherwise'])
                            is_cf = 'ControlFlow' in str(c_[2])
                            none_val = 1 if is_cf else 0          # ControlFlow::Break = 1, Option::None = 0
                            explicit = {v_ for v_, _ in tt['targets']}
                            none_stays = (none_val in stay) or (none_val not in explicit and other_stays)
                            if not none_stays:
                                removed.add(b)
                            break
                if n == "lexer::Tokenizer::<'a>::bump":
                    # progress when the tokenizer is established not to be at the end
                    for f in facts_at(fn, b):
                        if f[0] == 'callbool' and f[1][1].endswith('is_eof') and f[2] is False:
                            removed.add(b)
                        # ... or the rest of the input starts with something: `input[offset()..].starts_with(..)` held
                        if f[0] == 'callbool' and f[1][1].endswith('::starts_with') and f[2] is True and 'offset' in str(f[1][2][0]):
                            removed.add(b)
                        # ... or a character is known to be there: peek() matched Some(..) since the last bump
                        if f[0] == 'variant' and 'core::option::Option' in str(f[2]) and f[3] == [1] and "Tokenizer::<'a>::peek" in str(f[1]):
                            d_ = f[5]
                            others = [bb for bb, tt in fn.calls() if callee_name(tt) == "lexer::Tokenizer::<'a>::bump" and bb != b]
                            if not any(ob in fn.reachable(f[4], stop={d_}) and b in fn.reachable(ob, stop={d_}) for ob in others):
                                removed.add(b)
            removed |= counted_progress(fn, header, body)
            removed |= error_then_try(fn, header, body)
            removed |= shrinking_progress(F, fn, header, body)
            removed |= reslice_progress(fn, header, body)
            removed |= worklist_progress(fn, header, body)
            cyc = cycle_without(fn, header, body, removed)
            construct = 'loop#%d' % ordn
            rep.ob(cyc is None, rule, key, construct,
                   'every iteration passes a progress point (strict token consumer / finite iterator step) or leaves the loop'
                   if cyc is None else 'a cycle through the loop header avoids every consuming call: blocks %s (the loop can spin without consuming input)' % cyc[:12],
                   span_loc(fn.term(header).get('span') or fn.span))
    rep.count('loops_checked', nloops)
    # recursion SCCs
    g = {}
    for key in reach:
        fn = F.fns[key]
        if fn.crate != 'lib':
            continue
        g[key] = {c for c in F.call_graph().get(key, ()) if c in reach}
    sccs = tarjan(g)
    nscc = 0
    for comp in sccs:
        comp = sorted(comp)
        if len(comp) == 1 and comp[0] not in g.get(comp[0], ()):
            continue
        nscc += 1
        # representative: the member called from the most members (stable when helpers join the cycle)
        indeg = {c: sum(1 for d in comp if c in g.get(d, ())) for c in comp}
        rep_member = sorted(comp, key=lambda c: (-indeg[c], c))[0]
        # a cycle made of functions the pinned tree does not have (the recursion was moved into a helper) is named after the pinned
        # function it is entered from: the same recursion keeps the same name
        try:
            from mirlib import load_pinned
            _pin = load_pinned()
            pinned_lib = set(_pin['lib']) if _pin and 'lib' in _pin else None
        except Exception:
            pinned_lib = None
        if pinned_lib is not None and not any(c in pinned_lib for c in comp):
            entries = sorted(k_ for k_ in g if k_ not in comp and k_ in pinned_lib and (g[k_] & set(comp)))
            if len(entries) == 1:
                rep_member = entries[0]
        elif pinned_lib is not None and rep_member not in pinned_lib:
            pm = sorted((c for c in comp if c in pinned_lib), key=lambda c: (-indeg[c], c))
            if pm:
                rep_member = pm[0]
        # a recursion that is already on record keeps the name it is recorded under as long as that function is part of it
        # (which member is called from most others changes with every helper that is moved)
        for c in sorted(comp):
            if c in pinned_lib if pinned_lib is not None else False:
                if c.split('::')[-1] in _recorded_cycles():
                    rep_member = c
                    break
        name = 'cycle through %s' % rep_member.split('::')[-1]
        members = ', '.join(c.split('::')[-1] for c in comp[:8])
        if all(c.startswith(P) or c == 'parser::parse' for c in comp):
            # no cycle of calls that consume nothing
            lazy = {}
            for c in comp:
                fn = F.fns[c]
                pb = pr.progress_blocks(fn)
                for b, t in fn.calls():
                    callee = callee_name(t)
                    if callee in comp:
                        # is the call reachable from entry without passing a progress block?
                        if b in fn.reachable(0, stop=pb) and b not in pb:
                            lazy.setdefault(c, set()).add(callee)
            cyc = find_cycle(lazy)
            rep.ob(cyc is None, rule, 'parser', 'recursion ' + name,
                   'every recursive cycle consumes at least one token (the recursion ends)' if cyc is None
                   else 'recursive cycle without consumption: %s' % ' -> '.join(cyc), 'src/parser.rs')
            # ... but its depth follows the nesting of the input, and nothing limits it
            rep.bad(rule, 'recursion', name,
                    'recursion {%s}: one level of the host stack per level of nesting in the program text (no depth limit): a deeply nested '
                    'program (100000 opening parentheses) exhausts the host stack' % members, None)
        elif all('lexer::' in c for c in comp):
            fn = F.fns[comp[0]]
            ok = True
            for c in comp:
                f2 = F.fns[c]
                bumps = {b for b, t in f2.calls() if callee_name(t) == "lexer::Tokenizer::<'a>::bump"}
                for b, t in f2.calls():
                    if callee_name(t) in comp and b in f2.reachable(0, stop=bumps):
                        ok = False
            rep.ob(ok, rule, 'lexer', 'recursion ' + name, 'the tokenizer re-enters itself only after consuming a character', 'src/lexer.rs')
            # it ends, but every re-entry costs a host stack frame: the depth follows the length of a run of skipped characters
            rep.bad(rule, 'recursion', name,
                    'recursion {%s} in the tokenizer: one level of the host stack per skipped character / comment, so a few million '
                    'consecutive blanks exhaust the host stack (skip in a loop instead)' % members, 'src/lexer.rs')
        else:
            rep.bad(rule, 'recursion', name,
                    'recursion {%s} over a data structure whose depth follows the nesting of the input (no depth limit): a deeply nested '
                    'program exhausts the host stack' % members, None)
    rep.count('recursion_sccs', nscc)


_REC = []


def _recorded_cycles():
    if not _REC:
        import json, os, re as _re
        names = set()
        try:
            k = json.load(open(os.path.join(os.path.dirname(os.path.dirname(os.path.abspath(__file__))), 'known_findings.json')))
            for f in k.get('findings', []):
                m = _re.search(r'cycle through (\w+)', f.get('key', ''))
                if m:
                    names.add(m.group(1))
        except Exception:
            pass
        _REC.append(names)
    return _REC[0]


def tarjan(g):
    index = {}
    low = {}
    st = []
    on = set()
    out = []
    counter = [0]
    import sys
    sys.setrecursionlimit(10000)

    def sc(v):
        index[v] = low[v] = counter[0]
        counter[0] += 1
        st.append(v)
        on.add(v)
        for w in g.get(v, ()):
            if w not in index:
                sc(w)
                low[v] = min(low[v], low[w])
            elif w in on:
                low[v] = min(low[v], index[w])
        if low[v] == index[v]:
            comp = []
            while True:
                w = st.pop()
                on.discard(w)
                comp.append(w)
                if w == v:
                    break
            out.append(comp)
    for v in sorted(g):
        if v not in index:
            sc(v)
    return out


def find_cycle(g):
    color = {}

    def dfs(v, path):
        color[v] = 1
        for w in g.get(v, ()):
            if color.get(w) == 1:
                return path + [v, w]
            if w not in color:
                r = dfs(w, path + [v])
                if r:
                    return r
        color[v] = 2
        return None
    for v in sorted(g):
        if v not in color:
            r = dfs(v, [])
            if r:
                return r
    return None
