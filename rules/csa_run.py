"""Runs CSA once per context and exposes its findings to the property rules."""
from mirlib import CheckerError
from synlib import find_all, path_of, render
from rules import vmx
from rules.csa import CSA, CONTRACT, Undecided
from rules.csa_state import H
from rules.tables import _memo
import re


def norm(text):
    return re.sub(r'-?\d+', 'N', text)[:60]


def short_trace(tr):
    """the arm a trace starts in, without binding names: `Expr::While{condition, body} / if ..` -> `Expr::While`"""
    import re
    m = re.match(r'[A-Za-z_][A-Za-z_0-9:]*', tr.strip('<'))
    return m.group(0) if m else tr.split(' / ')[0]


def _place_path(v, depth=0):
    """steps from `self` to the place a symbolic value designates: ['contexts', '[0]', 'symbols'] - through borrows, derefs,
    Index / IndexMut calls with a constant index and `first_mut` / `last_mut`-free accessors; None when it is something else"""
    from rules.shared import int_of
    if not isinstance(v, tuple) or depth > 16:
        return None
    if v[0] in ('ref', 'deref', 'cast', 'okval'):
        return _place_path(v[1], depth + 1)
    if v == ('param', 1):
        return []
    if v[0] == 'field':
        p = _place_path(v[1], depth + 1)
        return None if p is None else p + [str(v[2])]
    if v[0] == 'index':
        p = _place_path(v[1], depth + 1)
        i = int_of(v[2])
        return None if p is None or i is None else p + ['[%d]' % i]
    if v[0] == 'call':
        n = v[1]
        if ('ops::index::Index' in n) and len(v[2]) == 2:
            p = _place_path(v[2][0], depth + 1)
            i = int_of(v[2][1])
            return None if p is None or i is None else p + ['[%d]' % i]
        if n.endswith(('::deref', '::deref_mut', '::as_mut_slice', '::as_slice', '::as_mut', '::as_ref', '::borrow_mut', '::borrow')) and v[2]:
            return _place_path(v[2][0], depth + 1)
    return None


def _mir_context_depth_query(F, fn):
    """a `&self -> bool` method of SymbolTable that only looks at how many contexts are open (`contexts.len() > 1`,
    `matches!(contexts.as_slice(), [_, _, ..])`): its answer inside a function (two or more contexts) and outside (one), as a
    function q(in_function) -> bool; None when the method looks at anything else"""
    from mirlib import AbsInt
    from rules.shared import int_of, truth
    from mirlib import uncast, is_binop

    def is_ctx_len(v):
        v = uncast(v)
        if not isinstance(v, tuple) or not v:
            return False
        if v[0] == 'unop' and v[1] == 'PtrMetadata':
            return 'contexts' in str(v[2]) or '_1.*.f0' in str(v[2])
        if v[0] == 'call' and v[1].endswith('::len') and v[2]:
            return 'contexts' in str(v[2][0]) or '_1.*.f0' in str(v[2][0])
        return False
    fields = F.adt('symbols::SymbolTable')['variants'][0]['fields']
    if not fields or fields[0]['name'] != 'contexts':
        return None
    answers = {}
    try:
        paths = AbsInt(F, fn, max_paths=200).run()
    except Exception:
        return None
    for depth in (1, 2, 3):
        got = set()
        for p in paths:
            if p.exit != 'return':
                continue
            r = p.env.get('_0')
            if not (isinstance(r, tuple) and r and r[0] == 'int'):
                return None
            ok = True
            for k in p.constraints:
                if k[0][0] != 'switch':
                    return None
                v = k[0][1]
                if not is_binop(v) or v[1] not in ('Ge', 'Gt', 'Le', 'Lt', 'Eq', 'Ne'):
                    return None
                if is_ctx_len(v[2]) and int_of(v[3]) is not None:
                    a, b = depth, int_of(v[3])
                elif is_ctx_len(v[3]) and int_of(v[2]) is not None:
                    a, b = int_of(v[2]), depth
                else:
                    return None
                val = {'Ge': a >= b, 'Gt': a > b, 'Le': a <= b, 'Lt': a < b, 'Eq': a == b, 'Ne': a != b}[v[1]]
                if val != bool(truth(k)):
                    ok = False
                    break
            if ok:
                got.add(bool(r[1]))
        if len(got) != 1:
            return None
        answers[depth] = next(iter(got))
    if answers[2] != answers[3]:
        return None         # it distinguishes one open function from two: not a plain `inside a function?` query
    return lambda in_function: answers[2] if in_function else answers[1]


def _mir_symtab_effects(F, c):
    """What a method of SymbolTable does, read from its MIR (helpers spliced in) when its source is not one of the spellings the
    syntactic pass knows: a `&mut self` method that cuts `contexts` back to 1, the scopes of contexts[0] back to 1 and the names of
    contexts[0].symbols[0] back to a length derived from an argument is a reset; a `&self` method whose result is computed from
    the length of contexts[0].symbols[0] alone is the mark such a reset can be handed."""
    from mirlib import callee_name, op_base_local
    from rules.psc import sym, strip
    from rules.shared import int_of, LocalFlow, ret_exprs
    P = 'symbols::SymbolTable::'
    allf = dict(getattr(F, 'transparent_fns', {}) or {})
    allf.update(F.fns)
    for key in sorted(allf):
        if not key.startswith(P) or '::{closure' in key:
            continue
        name = key[len(P):]
        fn = allf[key]
        if fn.arg_count < 1:
            continue
        ty1 = fn.local_ty(1) or ''
        is_mut = ty1.startswith('&') and ' mut ' in ty1[:24]
        if is_mut and name not in ('define', 'resolve', 'new_context', 'leave_context', 'enter_scope', 'leave_scope'):
            what = set()
            lf = None
            dom = fn.dominators()
            rets = [b for b in range(len(fn.blocks)) if fn.term(b)['k'] == 'return']
            for b, t in fn.calls():
                n = callee_name(t)
                if not (n.endswith('::truncate') and 'Vec' in n and len(t['args']) == 2):
                    continue
                if not all(b in dom.get(r, ()) for r in rets):
                    continue
                path = _place_path(sym(fn, t['args'][0]))
                k = int_of(strip(sym(fn, t['args'][1])))
                if path == ['contexts'] and k == 1:
                    what.add('contexts')
                elif path == ['contexts', '[0]', 'symbols'] and k == 1:
                    what.add('scopes')
                elif path == ['contexts', '[0]', 'symbols', '[0]'] and fn.arg_count >= 2:
                    lf = lf or LocalFlow(fn)
                    l = op_base_local(t['args'][1])
                    if l is not None and lf.reaches(l, set(range(2, fn.arg_count + 1))) is not None:
                        what.add('definitions')
            if what:
                c.symtab_reset[name] = set(c.symtab_reset.get(name, ())) | what
        if not is_mut and ty1.startswith('&') and fn.arg_count == 1 and name not in c.symtab_bool and (fn.local_ty(0) or '') == 'bool':
            q = _mir_context_depth_query(F, fn)
            if q is not None:
                c.symtab_bool[name] = q
        if not is_mut and ty1.startswith('&') and fn.arg_count == 1 and name not in c.symtab_pure and name not in c.symtab_bool and name not in ('resolve',):
            lens_ = []
            other = []
            for b, t in fn.calls():
                n = callee_name(t)
                if n.endswith('::len') and t['args']:
                    lens_.append(_place_path(sym(fn, t['args'][0])))
                elif 'ops::index::Index' in n or n.endswith(('::deref', '::as_slice')):
                    continue
                else:
                    other.append(n)
            if lens_ == [['contexts', '[0]', 'symbols', '[0]']] and not other:
                c.symtab_pure.add(name)
                c.symtab_marks.add(name)


def analyse(ctx):
    def build():
        F = ctx.facts()
        S = ctx.syn()
        opt, probs = vmx.optable(ctx)
        decl = vmx.operands_decl(ctx)
        scope_vars = [n for n, _ in F.enum_variants('symbols::Scope')]
        c = CSA(S, opt, decl, scope_vars)
        # SymbolTable bool queries: interpreted from their own source (`self.contexts.len() <op> <n>`)
        for name, f in S.methods('src/symbols.rs', 'SymbolTable').items():
            if f['output'].replace(' ', '') != '->bool':
                continue
            stmts = f['body']['stmts']
            q = None
            if len(stmts) == 1 and stmts[0]['k'] == 's_expr':
                e = stmts[0]['expr']
                if e.get('k') == 'binary' and e['r'].get('k') == 'lit' and e['l'].get('k') == 'mcall' and e['l']['method'] == 'len' \
                        and e['l']['recv'].get('k') == 'field' and e['l']['recv']['member'] == 'contexts':
                    n = e['r']['value']
                    op = e['op']
                    # contexts.len() = 1 outside functions, >= 2 inside
                    def mk(op, n):
                        def q(in_function):
                            ln = 2 if in_function else 1
                            return {'>': ln > n, '>=': ln >= n, '<': ln < n, '<=': ln <= n, '==': ln == n, '!=': ln != n}[op]
                        return q
                    if op in ('>', '>=', '<', '<=', '==', '!=') and isinstance(n, int) and n in (1, 2) and not (op in ('==', '!=') and n == 2) \
                            and not (op in ('>', '<=') and n == 2) and not (op in ('<', '>=') and n == 1):
                        q = mk(op, n)
            if q:
                c.symtab_bool[name] = q
        import copy as _copy
        ctx_methods = S.methods('src/symbols.rs', 'Context')

        def expand_context_calls(stmts_, depth=0):
            """a statement `<context>.m(args);` where m is a unit method of Context is replaced by m's statements, with `self`
            standing for <context> and the parameters for the arguments (a reset delegated to the context it resets)"""
            out = []
            for st_ in stmts_:
                e_ = st_.get('expr') if st_['k'] == 's_expr' else None
                m_ = ctx_methods.get(e_['method']) if e_ is not None and e_.get('k') == 'mcall' else None
                if m_ is not None and depth < 3 and m_['output'].strip() == '' and 'contexts' in render(e_['recv']):
                    names_ = [i_['pat']['name'] for i_ in m_['inputs'] if not i_.get('self') and i_['pat'].get('k') == 'p_ident']
                    if len(names_) == len(e_['args']):
                        sub_ = dict(zip(names_, e_['args']))

                        def rw(n):
                            if isinstance(n, dict):
                                if n.get('k') == 'path' and n.get('path') == ['self']:
                                    return _copy.deepcopy(e_['recv'])
                                if n.get('k') == 'path' and len(n.get('path') or []) == 1 and n['path'][0] in sub_:
                                    return _copy.deepcopy(sub_[n['path'][0]])
                                return {k_: rw(v_) for k_, v_ in n.items()}
                            if isinstance(n, list):
                                return [rw(x_) for x_ in n]
                            return n
                        out.extend(expand_context_calls([rw(s2) for s2 in m_['body']['stmts']], depth + 1))
                        continue
                out.append(st_)
            return out
        for name, f in S.methods('src/symbols.rs', 'SymbolTable').items():
            stmts = f['body']['stmts']
            if f['output'].strip() == '' and stmts:
                stmts = expand_context_calls(stmts)
                # a reset method: every statement cuts `self.contexts` / the scopes of the global context back to one entry,
                # spelled truncate(1) or `while <more than one> { pop }`
                alias = {}
                what = set()
                ok_reset = True

                def target(e):
                    r = render(e).replace(' ', '')
                    for a_, full in alias.items():
                        if r == a_ or r.startswith(a_ + '.'):
                            r = full + r[len(a_):]
                    r = r.replace('&mut', '').replace('(', '').replace(')', '')
                    if r == 'self.contexts':
                        return 'contexts'
                    if r in ('self.contexts[0].symbols',):
                        return 'scopes'
                    if r in ('self.contexts[0].symbols[0]',):
                        return 'definitions'
                    return None
                def cut_to(e_):
                    """the length a cut-back call leaves: `truncate(n)`, `drain(n..)`, `split_off(n)` -> the expression n"""
                    if e_.get('k') != 'mcall' or not e_['args']:
                        return None
                    a0 = e_['args'][0]
                    if e_['method'] in ('truncate', 'split_off'):
                        return a0
                    if e_['method'] == 'drain' and a0.get('k') == 'range' and a0.get('start') is not None and a0.get('end') is None:
                        return a0['start']
                    return None
                for st in stmts:
                    if st['k'] == 's_let' and st.get('init') is not None and st['pat'].get('k') == 'p_ident':
                        full_ = render(st['init']).replace(' ', '').replace('&mut', '').replace('&', '')
                        for a_, f_ in alias.items():
                            if full_ == a_ or full_.startswith(a_ + '.') or full_.startswith(a_ + '['):
                                full_ = f_ + full_[len(a_):]
                        alias[st['pat']['name']] = full_
                        continue
                    e = st.get('expr') if st['k'] == 's_expr' else None
                    if e is None:
                        continue
                    # `if x.len() > n { x.drain(n..); }`: the guard only keeps the cut from panicking on a shorter list
                    if e.get('k') == 'if' and not e.get('else') and len(e['then']['stmts']) == 1 and e['then']['stmts'][0]['k'] == 's_expr':
                        e = e['then']['stmts'][0]['expr']
                    n_ = cut_to(e)
                    if n_ is not None and n_.get('value') == 1 and target(e['recv']) in ('contexts', 'scopes'):
                        what.add(target(e['recv']))
                        continue
                    # the outermost scope of the global context is cut back to a length handed in by the caller
                    params_ = [i_['pat']['name'] for i_ in f['inputs'] if not i_.get('self') and i_['pat'].get('k') == 'p_ident']
                    if n_ is not None and path_of(n_) and path_of(n_)[0] in params_ and target(e['recv']) == 'definitions':
                        what.add('definitions')
                        continue
                    if e.get('k') == 'while':
                        bst = e['body']['stmts']
                        pops = [b_ for b_ in bst if b_['k'] == 's_expr' and b_['expr'].get('k') == 'mcall' and b_['expr']['method'] == 'pop']
                        tg = target(pops[0]['expr']['recv']) if len(pops) == 1 and len(bst) == 1 else None
                        c_ = e['cond']
                        more = False
                        if tg and c_.get('k') == 'binary' and c_['l'].get('k') == 'mcall' and c_['l']['method'] == 'len' and target(c_['l']['recv']) == tg:
                            more = (c_['op'], c_['r'].get('value')) in (('>', 1), ('>=', 2), ('!=', 1))
                        elif tg == 'contexts' and c_.get('k') == 'mcall' and path_of(c_['recv']) == ['self'] and c_['method'] in c.symtab_bool:
                            q_ = c.symtab_bool[c_['method']]
                            more = q_(True) is True and q_(False) is False
                        if tg and more:
                            what.add(tg)
                            continue
                    # a statement that is not one of the recognised cut-backs resets nothing (what it leaves open is reported
                    # by R17.2 at the error exits of the driver)
                    continue
                if ok_reset and what:
                    c.symtab_reset[name] = what
            if f['output'].replace(' ', '').replace('->', '') == 'usize' and any(i_.get('self') and not i_.get('mut') for i_ in f['inputs']):
                c.symtab_pure.add(name)
                # ... and, when it is the length of the outermost scope of the global context, it is the mark a later cut-back can use
                tail = stmts[-1] if stmts else None
                te = (tail.get('expr') if tail and tail['k'] == 's_expr' else None)
                if len(stmts) == 1 and te is not None and te.get('k') == 'mcall' and te['method'] == 'len' and not te['args'] and \
                        render(te['recv']).replace(' ', '') in ('self.contexts[0].symbols[0]',):
                    c.symtab_marks.add(name)
            if 'Option<Symbol>' in f['output'].replace(' ', '') and name != 'resolve':
                c.symtab_resolve.add(name)
            if name == 'define':
                c.symtab_define_output = f['output'].replace(' ', '')
            if any(i_.get('self') and i_.get('ref') and not i_.get('mut') for i_ in f['inputs']):
                c.symtab_readonly = getattr(c, 'symtab_readonly', set()) | {name}
        _mir_symtab_effects(F, c)
        from rules import tables
        pt = tables.pratt_tables(ctx)
        # what the parser can put into the operator fields (R07.6 checks these sets)
        c.ast_domains = {'Infix.operator': {o for o in pt['infix_operators'] if o and not o.startswith('<')},
                         'Prefix.operator': {o for o in pt['prefix_operators'] if o and not o.startswith('<')}}
        rounds = c.solve()
        viols = {}
        arms = []
        errs = []
        toperrs = []
        fused = []
        emits = 0

        def collect(meth, outs, top=False):
            nonlocal emits
            for st, v in outs:
                for ob, construct, text in st.violations:
                    viols.setdefault((ob, meth, construct, norm(text)), text)
                is_ok = (v[0] == 'res' and v[1] == 'ok') or v[0] == 'unit'
                is_err = v[0] == 'res' and v[1] == 'err'
                tr = ' / '.join(st.trace) or '<entry>'
                for fz in st.fused:
                    fused.append(dict(fz, method=meth))
                if is_ok:
                    if st.pending:
                        ops = sorted({e['op'] for e in st.pending.values()})
                        viols.setdefault(('O7', meth, tr, 'a jump emitted with a placeholder (%s) is never patched on this path' % ','.join(ops)), None)
                    if st.frames:
                        viols.setdefault(('R09.1', meth, tr, 'new_context() without leave_context() on this path'), None)
                    if getattr(st, 'fall_pending', None) is not None and st.reach and st.frame == st.fall_pending:
                        viols.setdefault(('O5', meth, tr, 'the function body can fall off its end (no Return/ReturnValue on some path)'), None)
                    if st.scopes != 0:
                        viols.setdefault(('R09.1', meth, tr, 'enter_scope()/leave_scope() unbalanced on this path (%+d)' % st.scopes), None)
                    if st.loops:
                        viols.setdefault(('O6', meth, tr, 'a loop context pushed by this construct is not popped on this path'), None)
                    if meth in CONTRACT and st.reach:
                        want = H(CONTRACT[meth])
                        if st.h != want:
                            ob = 'O1' if CONTRACT[meth] == 1 else 'O2'
                            viols.setdefault((ob, meth, tr, 'the construct leaves the operand stack at height %s relative to its start; %s must leave %s'
                                              % (st.h, 'an expression' if ob == 'O1' else 'a statement', want)), None)
                    for ev_ in st.trace:
                        # a lookup that found nothing and did not end the compilation (the attempt at a fused instruction falls
                        # back to the general sequence): the name is looked up again on this path, by this method or by the
                        # compilation of the sub-expression it is part of - otherwise an unknown name compiles
                        if isinstance(ev_, str) and ev_.startswith('unresolved ') and ev_ != 'unresolved ?':
                            nm_ = ev_[len('unresolved '):]
                            again = st.facts.get(('resolved', nm_)) or any(so[0] == 'compile' and so[2] and nm_.startswith(so[2]) for so in getattr(st, 'symops', [])) \
                                or any(so[0] == 'define' and so[2] == nm_ for so in getattr(st, 'symops', []))      # ... or declares it
                            if not again:
                                viols.setdefault(('R09.4', meth, tr, 'the name %s was not found, and the construct compiles without looking it up again' % nm_), None)
                    arms.append({'symops': list(getattr(st, 'symops', [])), 'method': meth, 'trace': tr, 'dh': repr(st.h) if st.reach else None, 'last': st.last, 'reach': st.reach,
                                 'emits': [e[0] for e in st.emits], 'code': st.code, 'end_pos': st.pos, 'bound_end': bool(st.bound)})
                    if top:
                        for k, h, f, r, asm in st.escapes:
                            if r:
                                viols.setdefault(('O6', meth, tr + ' / escape ' + k,
                                                  {'return': '`antwoord` outside any function body compiles to ReturnValue in top-level code (pops the base frame)',
                                                   'break': '`stop` escapes every loop', 'continue': '`volgende` escapes every loop'}[k]), None)
                elif is_err and top:
                    left = []
                    if st.scopes:
                        left.append('%d open scope(s)' % st.scopes)
                    if st.frames:
                        left.append('%d open function context(s)' % len(st.frames))
                    if st.loops:
                        left.append('%d loop context(s)' % len(st.loops))
                    if st.emitted or st.pending:
                        left.append('half-emitted code')
                    if st.last not in ('None', '?') and st.emitted:
                        left.append('peephole register')
                    NAMES = {'definitions': 'global definitions made by the failed program', 'scopes': 'open scope(s) of nested blocks', 'contexts': 'open function context(s)', 'loops': 'loop context(s)', 'code': 'half-emitted code', 'last': 'the peephole register'}
                    for d_ in sorted(st.dirty):
                        left.append(NAMES.get(d_, d_) + ' left by the failed statement')
                    if left:
                        viols.setdefault(('R17.2', meth, 'error exit', 'a failed compilation returns with ' + ', '.join(sorted(set(left)))), None)
                    toperrs.append(tr)
                elif is_err:
                    errs.append({'method': meth, 'trace': tr, 'emitted': st.emitted, 'loops': len(st.loops), 'scopes': st.scopes,
                                 'contexts': len(st.frames), 'pending': len(st.pending)})
        for meth in sorted(c.recursive):
            collect(meth, c.run_method(meth, lambda st: None))

        def top_init(st):
            st.in_function = False
            st.outer_loops = 'empty'
        for meth in sorted(c.methods):
            if meth in c.recursive or meth in ('new',):
                continue
            # entry points: methods not called by other methods of the impl and that emit code
            called = any(meth in c._calls_of(m) for m in c.methods if m != meth)
            body_emits = find_all(c.methods[meth]['body'], lambda n: n.get('k') == 'mcall' and path_of(n['recv']) == ['self'] and (n['method'] in c.methods))
            if called or not body_emits or c.methods[meth]['vis'] == '' and not body_emits:
                continue
            if meth in ('emit_opcode', 'emit_u8', 'emit_u16', 'change_jump_operand_at', 'last_instruction_is', 'remove_last_instruction', 'add_constant'):
                continue
            collect(meth, c.run_method(meth, top_init), top=True)
        # syntactic emit-site census (cross-checked against MIR by the caller)
        sites = {}
        for name, f in c.methods.items():
            for n in find_all(f['body'], lambda n: n.get('k') == 'mcall' and path_of(n['recv']) == ['self'] and n['method'] in ('emit_opcode', 'emit_u8', 'emit_u16', 'change_jump_operand_at', 'remove_last_instruction')):
                sites.setdefault(name, {}).setdefault(n['method'], 0)
                sites[name][n['method']] += 1
        return {'csa': c, 'rounds': rounds, 'violations': [dict(oblig=k[0], method=k[1], construct=k[2] + ' :: ' + k[3], text=v or k[3], kc=short_trace(k[2]) + ' :: ' + k[3][:48]) for k, v in viols.items()],
                'arms': arms, 'errs': errs, 'toperrs': toperrs, 'fused': fused, 'sites': sites, 'vm_problems': probs, 'optable': opt, 'decl': decl,
                'summaries': {m: [(repr(x.dh), x.last, x.reach) for x in ex.values()] for m, ex in c.summaries.items()}}
    return _memo(ctx, 'csa', build)
