"""R02.7 — inventory of unsafe operations; each site must fall into an obligation class."""
from mirlib import *
from rules.shared import deref, truth

TYPE = 'object::Type'
LOCAL_MACROS_EXCLUDE = ('format', 'format_args', 'panic', 'assert', 'assert_eq', 'debug_assert', 'debug_assert_eq', 'write', 'writeln',
                        'print', 'println', 'eprintln', 'unimplemented', 'unreachable', 'matches', 'vec', 'const_format_args')

TYPED = {
    'object::Object::as_f64_unchecked': 'Float', 'object::Object::as_str_unchecked': 'String', 'object::Object::as_vec_unchecked': 'Array',
    'object::Object::as_vec_unchecked_mut': 'Array', 'object::Float::read': 'Float', 'object::Array::read': 'Array',
    'object::Float::destroy': 'Float', 'object::String::destroy': 'String', 'object::Array::destroy': 'Array',
}
GENERIC_HEAP = ('object::Object::get', 'object::Object::get_mut')


def user_site(span):
    """is this call written by the crate (directly or through one of its own macro_rules!)"""
    if not span.get('exp'):
        return True
    ms = span.get('macros') or []
    root = ms[-1] if ms else ''
    if any(m.split('::')[-1] in LOCAL_MACROS_EXCLUDE for m in ms):
        return False
    return bool(root) and not root.startswith('$crate')


def canon(env, v, depth=0):
    """identity of an Object value, ignoring how it was copied/borrowed"""
    if not isinstance(v, tuple) or depth > 8:
        return v
    if v[0] == 'ref':
        k = v[1]
        if k in env:
            return canon(env, env[k], depth + 1)
        import re as _re
        toks = _re.findall(r'(^_\d+|^\$\w+|\.\*|\.f\d+|\.\[[^\]]*\]|@\w+)', k)
        if toks and ''.join(toks) == k and len(toks) > 1:
            # longest prefix known in env, then re-apply the remaining projections
            for cut in range(len(toks) - 1, 0, -1):
                pre = ''.join(toks[:cut])
                base = None
                if pre in env:
                    base = canon(env, env[pre], depth + 1)
                elif cut == 1 and pre[1:].isdigit():
                    base = ('obj', 'param', int(pre[1:]))
                if base is not None:
                    for tk in toks[cut:]:
                        if tk == '.*':
                            base = ('obj', 'param*', base[2]) if base[:2] == ('obj', 'param') else ('deref', base)
                        elif tk.startswith('.[#'):
                            base = ('index', base, ('int', int(tk[3:-1]), 'usize'))
                        else:
                            base = ('proj', base, tk)
                    return base
        if k.endswith('.*') and k[1:-2].isdigit():
            return ('obj', 'param*', int(k[1:-2]))
        if k[1:].isdigit():
            return ('obj', 'param', int(k[1:]))
        return ('obj', 'mem', k)
    if v[0] == 'mem' and len(v) == 2 and isinstance(v[1], str):
        # the (unknown) content of a place reached through a reference: the same object as a borrow of that place
        return canon(env, ('ref', v[1]), depth + 1)
    if v[0] == 'deref':
        c = canon(env, v[1], depth + 1)
        if c and c[0] == 'obj' and c[1] == 'param':
            return ('obj', 'param*', c[2])
        return ('deref', c)
    if v[0] == 'local':
        return ('obj', 'param', v[1])
    if v[0] == 'call':
        return ('call', v[1], tuple(canon(env, a, depth + 1) for a in v[2]))
    if v[0] in ('cast',):
        return canon(env, v[1], depth + 1)
    if v[0] == 'index':
        return ('index', canon(env, v[1], depth + 1), canon(env, v[2], depth + 1))
    return v


def same(a, b):
    if a == b:
        return True
    # param vs *param are different levels of the same binding for &self methods: treat as one object
    if isinstance(a, tuple) and isinstance(b, tuple) and a[:1] == ('obj',) and b[:1] == ('obj',) and a[2] == b[2] and {a[1], b[1]} <= {'param', 'param*'}:
        return True
    return False


def tag_facts(path):
    """[(object canon, type name)] and [(objA, objB)] tag equalities established on the path"""
    known = []
    eqs = []
    env = path.env
    for c in path.constraints:
        if c[0][0] == 'variant' and c[0][2] == TYPE and len(c[0]) > 3:
            v = c[0][3]
            if v and v[0] == 'call' and v[1] == 'object::Object::tag' and c[1] and not str(c[1]).startswith('otherwise'):
                known.append((canon(env, v[2][0]), c[1]))
        elif c[0][0] == 'switch':
            v = c[0][1]
            if v[0] == 'call' and (v[1].endswith('PartialEq::ne') or v[1].endswith('PartialEq>::eq') or v[1].endswith('PartialEq::eq') or v[1].endswith('PartialEq>::ne')):
                is_ne = v[1].endswith('ne')
                t = truth(c)
                equal = (t and not is_ne) or (not t and is_ne)
                if not equal:
                    continue
                a, b = [deref(env, x) for x in v[2]]
                ta = a if a[0] == 'call' and a[1] == 'object::Object::tag' else None
                tb = b if b[0] == 'call' and b[1] == 'object::Object::tag' else None
                if ta and tb:
                    eqs.append((canon(env, ta[2][0]), canon(env, tb[2][0])))
                elif ta and b[0] == 'enum':
                    known.append((canon(env, ta[2][0]), b[2]))
                elif tb and a[0] == 'enum':
                    known.append((canon(env, tb[2][0]), a[2]))
    # assert_eq!(self.tag(), Type::X): the failing branch diverges, so on surviving paths the Eq held
    for c in path.constraints:
        if c[0][0] == 'switch' and is_binop(c[0][1], 'Eq') and truth(c):
            pass
    # a tag established by exclusion: the tests taken on the path (match arms passed over, `tag != X`, predicates of Type such as
    # `ordered()`) leave exactly one type possible
    try:
        from rules.c05 import _tag_atoms
        import mirlib as _ml
        F_ = _ml.CURRENT_FACTS
        allv = {n for n, _ in F_.enum_variants(TYPE)} if F_ is not None else None
        if allv:
            groups = []
            for o_, ty_, tv_ in _tag_atoms(path, env):
                g_ = next((g for g in groups if same(g[0], o_)), None)
                if g_ is None:
                    g_ = [o_, set(allv)]
                    groups.append(g_)
                if isinstance(ty_, tuple):
                    g_[1] &= set(ty_[1])
                elif tv_:
                    g_[1] &= {ty_}
                else:
                    g_[1] -= {ty_}
            for o_, poss_ in groups:
                if len(poss_) == 1 and not any(same(o_, o2) and t2 in poss_ for o2, t2 in known):
                    known.append((o_, next(iter(poss_))))
    except ImportError:
        pass
    changed = True
    while changed:
        changed = False
        for a, b in eqs:
            for o, ty in list(known):
                for x, y in ((a, b), (b, a)):
                    if same(o, x) and not any(same(y, o2) and ty == t2 for o2, t2 in known):
                        known.append((y, ty))
                        changed = True
    return known


def check(ctx, rep, rule):
    F = ctx.facts()
    sites = []
    for f in F.all_fns:
        if f.crate != 'lib':
            continue
        for b, t in f.calls():
            if t['callee'].get('unsafe') and user_site(t['span']):
                sites.append((f, b, t, callee_name(t)))
    rep.count('unsafe_call_sites', len(sites))
    by_fn = {}
    for f, b, t, n in sites:
        by_fn.setdefault(f.path, []).append((b, t, n))
    for fpath, lst in sorted(by_fn.items()):
        fn = F.fn(fpath)
        caller_unsafe = fn.j.get('unsafe', False)
        typed = [(b, t, n) for b, t, n in lst if n in TYPED]
        paths = None
        ordinal = {}
        for b, t, n in sorted(lst, key=lambda x: x[0]):
            ordinal[n] = ordinal.get(n, 0) + 1
            construct = '%s#%d' % (n.split('::', 1)[-1] if n.startswith('object::') else n, ordinal[n])
            loc = span_loc(t['span'])
            short = n
            if n in TYPED:
                want = TYPED[n]
                if caller_unsafe:
                    rep.good(rule, fpath, construct, 'typed heap access inside an unsafe fn: the obligation (tag = %s) is its callers\'' % want, loc)
                    continue
                if len(fn.blocks) > 150:
                    # dispatch loop: check the arm region only
                    ok = region_tag_check(F, fn, b, t, want)
                else:
                    if paths is None:
                        paths = AbsInt(F, fn, max_paths=30000).run()
                    ok = True
                    seen = False
                    for p in paths:
                        for c in p.calls:
                            if c[0] == b and c[4] is t:
                                seen = True
                                obj = canon(p.env, c[2][0])
                                facts = tag_facts(p)
                                if not any(same(obj, o) and ty == want for o, ty in facts):
                                    ok = False
                    ok = ok and seen
                rep.ob(ok, rule, fpath, construct, 'typed heap access (class: typed-access) must be dominated by a test that the object\'s tag is %s' % want, loc)
            elif n in GENERIC_HEAP:
                rep.ob(caller_unsafe or fpath in ('object::Object::as_string_mut', 'object::Float::from_f64', 'object::String::from_string', 'object::Array::from_vec'),
                       rule, fpath, construct, 'raw typed deref (class: typed-access): only inside unsafe accessors, the checked as_string_mut and the constructors (fresh allocation)', loc)
            elif n.endswith('get_unchecked') and fpath in ('vm::VM::read_u8', 'vm::VM::read_u16', 'vm::VM::next'):
                rep.good(rule, fpath, construct, 'class code-fetch: in bounds because every jump target/fall-through is an instruction inside the buffer (R02.4, R02.5, R02.1)', loc)
            elif fpath == 'vm::VM::pop' and (n.endswith('set_len') or n.endswith('::add') or n == 'core::ptr::read'):
                okf, whyf = frame_arith_ok(ctx)
                rep.ob(okf, rule, fpath, construct, 'class unchecked-pop: the stack is non-empty because generated code is balanced per frame (R02.3) and frame bases '
                       'never wrap (R12.4)%s' % ((': ' + whyf) if not okf else ''), loc)
            elif n in ('alloc::alloc::alloc', 'alloc::alloc::dealloc', 'core::ptr::drop_in_place'):
                ok = fpath == 'object::allocate' or fpath.endswith('::destroy')
                if not ok and fpath == 'object::Object::free':
                    # the release code written into the dispatcher itself (or spliced in from a generic helper): every release must
                    # be of the box type the tag test of that path established
                    ok = free_releases_match_tags(ctx)
                rep.ob(ok, rule, fpath, construct, 'class alloc/dealloc: only in object::allocate, the destroy functions and (under the matching tag test) Object::free (ownership rules: C03/C04)', loc)
            elif n.endswith('::write') and 'from_' in fpath and fpath.startswith('object::'):
                rep.good(rule, fpath, construct, 'class constructor-init: initialises the freshly allocated box', loc)
            elif fpath.startswith('gc::GC::'):
                rep.good(rule, fpath, construct, 'class gc-bitmap: decided by C03/R03.4', loc, nontrivial=False)
            else:
                rep.bad(rule, fpath, construct, 'unsafe operation `%s` fits no obligation class' % n, loc)
    # transmutes
    nt = 0
    for f in F.all_fns:
        if f.crate != 'lib':
            continue
        for b, si, st in f.stmts():
            if st['k'] == 'assign' and st['rv']['k'] == 'cast' and st['rv']['ck'] == 'Transmute' and user_site(st['span']):
                to = st['rv']['to']
                fr = st['rv']['from']
                if (fr.startswith('*') or fr == 'usize' or 'NonNull' in fr) and (to.startswith('*') or to == 'usize'):
                    continue   # compiler-inserted pointer checks / Box internals
                nt += 1
                ok = (to == 'compiler::OpCode' and f.path == '<compiler::OpCode as core::convert::From<u8>>::from') or \
                     (to == 'builtins::Builtin' and f.path == 'vm::VM::run') or (to == TYPE and f.path == 'object::Object::tag') or to == st['rv']['from']
                rep.ob(ok, rule, f.path, 'transmute to %s' % to, 'class enum-transmute: OpCode/Builtin bytes (R02.2), Type tag (C15/R15.1)', span_loc(st['span']))
    rep.count('transmutes', nt)
    # raw pointer dereferences outside the accessors
    nd = 0
    for f in F.all_fns:
        if f.crate != 'lib':
            continue
        for b, si, st in f.stmts():
            if st['k'] != 'assign' or not user_site(st['span']):
                continue
            for pl in (st['place'], st['rv'].get('place')):
                if pl and pl['proj'] and pl['proj'][0] == 'deref' and f.local_ty(pl['local']).startswith('*'):
                    dd = f.single_def(pl['local'])
                    if dd and dd[0] == 'assign' and dd[3]['k'] == 'cast' and dd[3]['ck'] == 'Transmute':
                        continue   # Box<T> deref as lowered by rustc
                    nd += 1
                    ok = f.path in ('object::Object::get', 'object::Object::get_mut') or f.path.startswith('object::') and 'from_' in f.path
                    rep.ob(ok, rule, f.path, 'raw pointer dereference', 'class typed-access: raw derefs only in Object::get/get_mut and the constructors', span_loc(st['span']))
    rep.count('raw_derefs', nd)


def region_tag_check(F, fn, b, t, want):
    """for a call inside the dispatch loop: walk backwards over single predecessors to the switch that fixed the tag"""
    cur = b
    obj_op = t['args'][0]
    for _ in range(40):
        preds = fn.pred(cur)
        if len(preds) != 1:
            return False
        p = preds[0]
        term = fn.term(p)
        if term['k'] == 'switch':
            # the switch operand is discriminant of tag(obj)
            for st in fn.blocks[p]['stmts']:
                if st['k'] == 'assign' and st['rv']['k'] == 'discr' and st['rv']['enum'] == TYPE:
                    d = fn.single_def(st['rv']['place']['local'])
                    if d and d[0] == 'call' and callee_name(d[2]) == 'object::Object::tag':
                        a = fn.resolve_copy(d[2]['args'][0])
                        o = fn.resolve_copy(obj_op)
                        same_obj = op_local(a) is not None and op_local(a) == op_local(o)
                        names = {dd: n for n, dd in F.enum_variants(TYPE)}
                        vals = [v for v, tb in term['targets'] if tb == cur]
                        return same_obj and [names.get(v) for v in vals] == [want]
            return False
        cur = p
    return False


def frame_arith_ok(ctx):
    key = '_frame_arith_ok'
    if key not in ctx.__dict__:
        from framework import Report
        from rules import c12
        tmp = Report('tmp', 'quick')
        c12.check_frame_arith(ctx, tmp, 'R12.4')
        bad = [o for o in tmp.obs if not o['ok'] and o['fn'] != 'vm::VM::pop']
        ctx.__dict__[key] = (not bad, bad[0]['construct'] if bad else '')
    return ctx.__dict__[key]


def released_types(ctx):
    """{type name: [box types released on paths where the tag is that type]} for Object::free, from destroy calls or from
    dealloc(Layout::new::<T>()) written / spliced into it"""
    from mirlib import _split_generic_args
    F = ctx.facts()
    fn = F.fn('object::Object::free')
    out = {}
    for p in AbsInt(F, fn, max_paths=4000).run():
        tys = sorted({ty for o_, ty in tag_facts(p)})
        rel = []
        for c in p.calls:
            if c[1].endswith('::destroy') and c[1].startswith('object::'):
                rel.append(c[1].split('::')[-2])
            elif c[1].endswith('alloc::dealloc') and len(c[2]) == 2:
                lay = c[2][1]
                lay = p.env.get(lay[1], lay) if lay[0] == 'ref' else lay
                if lay[0] == 'call' and lay[1].endswith('Layout::new'):
                    for b2, t2 in fn.calls():
                        if b2 == lay[3]:
                            ga = _split_generic_args(t2['callee'].get('generic_args'))
                            rel.append((ga[0] if ga else '?').split('::')[-1])
                else:
                    rel.append('?')
        if rel:
            for ty in (tys or ['<no tag test>']):
                out.setdefault(ty, []).extend(rel)
    return out


def free_releases_match_tags(ctx):
    rt = released_types(ctx)
    return bool(rt) and all(ty != '<no tag test>' and set(v) == {ty} for ty, v in rt.items())


IMMEDIATE = {'object::Object::as_int': 'Int', 'object::Object::as_bool': 'Bool', 'object::Object::as_function': 'Function'}


def check_immediates(ctx, rep, rule):
    """the decoders of immediate values (`as_int`, `as_bool`, `as_function`) only shift the tagged word: applied to a value of
    another type they answer with that value's bits (`ja` reads as 1, null as 0, a pointer as a huge number).  Every call in
    reachable code must therefore be preceded, on every path, by a test that the object's tag is the decoder's type - the same
    obligation the unsafe typed accessors carry (R02.7), for the accessors the language does not mark unsafe."""
    from rules import psc
    F = ctx.facts()
    reach = psc.reachable(ctx, with_bin=False)
    n = 0
    for key in sorted(reach):
        fn = F.fns[key]
        if fn.crate != 'lib':
            continue
        lst = [(b, t, callee_name(t)) for b, t in fn.calls() if callee_name(t) in IMMEDIATE and user_site(t['span'])]
        if not lst:
            continue
        paths = None
        ordinal = {}
        for b, t, nme in sorted(lst, key=lambda x: x[0]):
            n += 1
            ordinal[nme] = ordinal.get(nme, 0) + 1
            want = IMMEDIATE[nme]
            construct = '%s#%d' % (nme.split('::', 1)[-1], ordinal[nme])
            if len(fn.blocks) > 150:
                ok = region_tag_check(F, fn, b, t, want)
                if not ok:
                    ok = arm_tag_check(F, fn, b, t, want)
            else:
                if paths is None:
                    paths = AbsInt(F, fn, max_paths=30000).run()
                ok = True
                seen = False
                for p in paths:
                    for c in p.calls:
                        if c[0] == b and c[4] is t:
                            seen = True
                            obj = canon(p.env, c[2][0])
                            facts = tag_facts(p)
                            if not any(same(obj, o) and ty == want for o, ty in facts):
                                ok = False
                ok = ok and seen
            rep.ob(ok, rule, key, construct, 'the value decoded as %s was tested to have the tag %s on every path that reaches the decoder' % (want, want), span_loc(t['span']))
    rep.count('immediate_decoder_sites', n)


def arm_tag_check(F, fn, b, t, want):
    """inside the dispatch loop: some block that dominates the call branches on `tag(obj) == want` (a comparison or a switch on
    the discriminant) for the same object, and the call lies on the side where the tag is `want`"""
    from rules import psc
    obj = psc.strip(psc.unref(psc.sym(fn, t['args'][0])))
    for f in psc.facts_at(fn, b):
        if f[0] == 'variant' and f[2] == TYPE:
            v = f[1]
            # ('variant', place-sym of the discriminant read, enum, values, ...)
            tv = v
            if isinstance(tv, tuple) and tv and tv[0] == 'call' and tv[1] == 'object::Object::tag' and psc.strip(psc.unref(tv[2][0])) == obj:
                names = {dd: nme for nme, dd in F.enum_variants(TYPE)}
                if [names.get(x) for x in (f[3] or [])] == [want]:
                    return True
        if f[0] in ('Eq', 'Ne') or f[0] == 'callbool':
            c = f[1] if f[0] == 'callbool' else None
            if c is not None and c[0] == 'call' and (c[1].endswith('PartialEq>::eq') or c[1].endswith('PartialEq::eq') or c[1].endswith('PartialEq::ne') or c[1].endswith('PartialEq>::ne')):
                is_ne = c[1].endswith('ne')
                tvv = f[2]
                equal = (tvv and not is_ne) or ((not tvv) and is_ne)
                if not equal:
                    continue
                a, b_ = [_enum_of_promoted(fn, psc.unref(x)) for x in c[2]]
                for x, y in ((a, b_), (b_, a)):
                    if isinstance(x, tuple) and x and x[0] == 'call' and x[1] == 'object::Object::tag' and psc.strip(psc.unref(x[2][0])) == obj and isinstance(y, tuple) and y and y[0] == 'enum' and y[2] == want:
                        return True
    return False


def _enum_of_promoted(fn, v):
    """a promoted constant that is one variant of object::Type -> ('enum', TYPE, variant)"""
    if isinstance(v, tuple) and v and v[0] == 'promoted':
        for pr in fn.j.get('promoted') or []:
            if pr['i'] == v[1]:
                for bl in pr['blocks']:
                    for st in bl['stmts']:
                        if st['k'] == 'assign' and st['rv']['k'] == 'aggregate' and st['rv'].get('adt') == TYPE:
                            return ('enum', TYPE, st['rv']['variant'])
                        if st['k'] == 'assign' and st['rv']['k'] == 'use' and st['rv']['op'].get('variant') and st['rv']['op'].get('ty', '').endswith('Type'):
                            return ('enum', TYPE, st['rv']['op']['variant'])
    return v
