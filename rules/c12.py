"""C12 — calls bind arguments, isolate activations and resume the caller intact (protocol rules)."""
from mirlib import *
from rules import vmx, csa_run, psc, c05
from rules.psc import sym, strip
from rules.shared import deref

META = {
    'title': 'Calls bind arguments, isolate activations and resume the caller intact',
    'explanation': 'The calling convention is checked on both sides. Compiler (CSA code stream): arguments left to right, then the callee, '
                   'then Call(argc = arguments.len()); a function literal defines its name, opens a fresh context, defines the parameters in '
                   'order (slot i = parameter i). VM (MIR paths of the Call / ReturnValue / Return arms and of pushframe/popframe): the frame '
                   'base is computed from the stack length read BEFORE the callee is popped as len - 1 - argc, locals are padded from the '
                   'num_locals of the same function value, pushframe stores the current ip into the frame it leaves; popframe pops the frame, '
                   'truncates the stack to its base and restores ip/bp from the new last frame; exactly one result is pushed. 16-bit frame '
                   'arithmetic must be guarded.'
                   " R12.5 the frame size packed into a function value counts every defined name. R12.6 names are looked up only in the current function's context and the global one. R12.7 the number of call frames is bounded by a test with an error edge. R12.8 the name lookup answers from the scope structure as it is now (a cache of answers is brought up to date when a function context is entered or left).",
    'not_decided': ['independence of activations as a run-time fact; results of deep recursion'],
}
META['explanation'] += ' R12.3 also: a function declared inside a function is a variable of that activation (its name is defined in the current context, not looked up).'


def run(ctx, rep):
    F = ctx.facts()
    R = csa_run.analyse(ctx)
    v = vmx.vmx(ctx)
    fn = v['fn']
    rep.rule('R12.1', 'calling convention agrees on both sides (argument order, callee last, argc, frame base, padding, pushframe after the fetch)')
    rep.rule('R12.2', 'return protocol: pop frame, truncate the stack to its base, restore ip/bp, push exactly one value')
    rep.rule('R12.3', 'a named function is declared before its body is compiled')
    rep.rule('R12.4', '16-bit frame arithmetic is guarded; an argument count the callee cannot hold is an error')
    rep.rule('R12.5', 'the frame a call reserves holds every parameter and local of the callee: the size packed into the function value counts each defined name')
    from rules import c02 as _c02
    _c02.check_frame_size(ctx, rep, 'R12.5')
    rep.rule('R12.6', 'an activation sees only its own variables and the globals: a name is looked up in the context of the function being compiled and in the global one, never in an enclosing function (whose slots belong to another frame)')
    from rules import c09 as _c09
    _c09.check_visibility(ctx, rep, 'R12.6')
    # ---- compiler side -----------------------------------------------------------------------
    seen = set()
    for a in R['arms']:
        if a['method'] != 'compile_expression' or not a['trace'].startswith('Expr::Call') or not a['reach']:
            continue
        stream = []
        for c in a['code']:
            if c['kind'] == 'blob':
                stream.append('<%s>' % (c['arg'] or '').split('/')[-1])
            else:
                stream.append(c['op'])
        key = tuple(stream)
        if key in seen:
            continue
        seen.add(key)
        if stream[-1:] == ['Call']:
            ok = stream[-2:] == ['<Call.left>', 'Call'] and all(s == '<Call.arguments[]>' for s in stream[:-2])
            rep.ob(ok, 'R12.1', 'compiler::Compiler::compile_expression', 'Call stream ' + ' '.join(stream)[:80],
                   'arguments (in list order), then the callee, then OpCode::Call', 'src/compiler.rs')
        elif stream[-1:] == ['CallBuiltin']:
            ok = all(s == '<Call.arguments[]>' for s in stream[:-1])
            rep.ob(ok, 'R12.1', 'compiler::Compiler::compile_expression', 'CallBuiltin stream ' + ' '.join(stream)[:80], 'arguments in list order, then OpCode::CallBuiltin', 'src/compiler.rs')
    rep.count('call_streams', len(seen))
    if not seen:
        rep.bad('R12.1', 'compiler::Compiler::compile_expression', 'Call arm', 'no path of the Call arm found', 'src/compiler.rs')
    # argc provenance is an O8 obligation
    for x in R['violations']:
        if x['oblig'] == 'O8' and ('Call' in x['text']):
            rep.bad('R12.1', 'compiler::Compiler::' + x['method'], x['construct'], x['text'], 'src/compiler.rs', key=x['kc'])
    for x in R['violations']:
        if x['oblig'] == 'R09.9' and 'Function' in str(x['construct']):
            # a function declared inside a function is a variable of that activation: declaring it may not overwrite a binding of
            # the caller's world (R09.9 read for C12)
            rep.bad('R12.3', 'compiler::Compiler::' + x['method'], x['construct'], x['text'], 'src/compiler.rs', key=x['kc'])
    for x in R['violations']:
        if x['oblig'] == 'R12.1':
            rep.bad('R12.1', 'compiler::Compiler::' + x['method'], x['construct'], x['text'], 'src/compiler.rs', key=x['kc'])
    # ---- VM side: Call arm ---------------------------------------------------------------------
    # pushframe / popframe first: the Call arm is read through pushframe's parameterisation (entry, base) or (frame)
    frame_contracts(ctx, rep)
    form = ctx.__dict__.get('_pushframe_form')
    roles = frame_roles(F)
    call = v['arms'].get('Call')
    if not call:
        raise CheckerError('no Call arm')
    npaths = 0
    for r in call['paths']:
        if r['kind'] != 'continue':
            continue
        npaths += 1
        p = r['path']
        pf = [c for c in p.calls if c[1] == 'vm::VM::pushframe']
        ok = len(pf) == 1 and form is not None
        why = []
        if len(pf) == 1 and form is None:
            why.append('pushframe does not satisfy its contract (R12.2), so the values it is given cannot be interpreted')
        if ok:
            def actual(fm):
                if fm[0] == 'local':
                    return deref(p.env, pf[0][2][fm[1] - 1])
                # ('field', ('local', i), name): a field of the frame value handed in
                fv = _norm(pf[0][2][fm[1][1] - 1], p.env, roles)
                if fv[0] == 'call' and fv[1] == 'vm::Frame::new' and fm[2] in roles['by_name']:
                    return fv[2][roles['by_name'][fm[2]]]
                if fv[0] == 'agg' and fv[1] == 'vm::Frame':
                    return fv[3][roles['field_index'][fm[2]]]
                return ('field', fv, fm[2])
            ipv, bpv = actual(form['ip']), actual(form['base'])
            pops = [c[0] for c in p.calls if c[1] == vmx.POP]
            fetches = [c[0] for c in p.calls if c[1] in vmx.FETCH]
            lb = vmx.lin_of(F, p, bpv, pops, fetches)
            # the frame starts at the first argument: (length on entry) - 1 (the callee value) - argc, however the pops and the
            # reading of the length are ordered
            if lb != vmx.Lin({'L0': 1, 1: -1, 'operand#1': -1}):
                ok = False
                why.append('frame base is %s (= %s), expected len - 1 - argc' % (show(bpv)[:100], lb))
            if 'as_function' not in show(ipv) or 'pop' not in show(ipv):
                ok = False
                why.append('entry ip does not come from the popped function value: %s' % show(ipv)[:80])
            fetch_idx = next((i for i, c in enumerate(p.calls) if c[1] == 'vm::VM::read_u8'), None)
            if fetch_idx is None or p.calls.index(pf[0]) < fetch_idx:
                ok = False
                why.append('pushframe before the operand fetch (the saved ip would point at the operand)')
        rep.ob(ok, 'R12.1', fn.path, 'Call arm path %d' % npaths, '; '.join(why) or 'base = len - 1 - argc; ip from the callee; pushframe after the fetch', 'src/vm.rs')
    # padding: loop pushes null, count from num_locals (>= num_locals - argc)
    pads = set()
    for r in call['paths']:
        for l in r['loops'].values():
            if l['iters']:
                pads.add((l['pushes'] // l['iters'], l['trip']))
    okpad = len(pads) == 1 and next(iter(pads))[0] == 1 and 'as_function' in str(call_trip_value(call))
    rep.ob(okpad, 'R12.1', fn.path, 'Call arm padding', 'local slots are padded with one null per missing slot, the count deriving from num_locals of the called function: %s' % sorted(pads), 'src/vm.rs')
    # Return arms
    for op, want in (('ReturnValue', ['pop', 'popframe', 'push']), ('Return', ['popframe', 'push'])):
        arm = v['arms'].get(op)
        for r in (arm['paths'] if arm else []):
            if r['kind'] != 'continue':
                continue
            ev = [e for e in r['events'] if e in ('pop', 'popframe', 'push', 'pushframe')]
            pushed = r['pushed']
            okv = ev == want and len(pushed) == 1 and ((op == 'ReturnValue' and pushed[0] == 'pop#1') or (op == 'Return' and pushed[0].startswith('null')))
            rep.ob(okv, 'R12.2', fn.path, '%s arm' % op, 'events %s, pushes %s' % (ev, pushed), 'src/vm.rs')
    # R12.3
    from synlib import find_all, render_pat
    S = ctx.syn()
    ce = S.method('src/compiler.rs', 'Compiler', 'compile_expression')
    farm = [a for m in find_all(ce['body'], lambda n: n.get('k') == 'match') for a in m['arms'] if render_pat(a['pat']).startswith('Expr::Function')]
    ok = False
    if len(farm) == 1:
        order = [n['method'] for n in find_all(S.expanded('src/compiler.rs', 'Compiler', farm[0]['body']), lambda n: n.get('k') == 'mcall') if n['method'] in ('define', 'new_context')]
        ok = order[:2] == ['define', 'new_context']
    if not ok:
        # the same order read from the shape analysis (helpers and closures followed)
        from rules import csa_run as _cr
        fa = [a for a in _cr.analyse(ctx)['arms'] if a['method'] == 'compile_expression' and a['trace'].startswith('Expr::Function')]
        okc = bool(fa)
        for a in fa:
            ops = a.get('symops') or []
            kinds = [o[0] for o in ops]
            if 'new_context' not in kinds:
                okc = False
                continue
            i_new = kinds.index('new_context')
            named = [i for i, o in enumerate(ops) if o[0] == 'define' and o[2] and str(o[2]).endswith('.name')]
            if any(i > i_new for i in named):
                okc = False
        # ... and some path declares the name at all
        okc = okc and any(any(o[0] == 'define' and o[2] and str(o[2]).endswith('.name') for o in (a.get('symops') or [])) for a in fa)
        ok = okc
    rep.ob(ok, 'R12.3', 'compiler::Compiler::compile_expression', 'Expr::Function', 'define(name) precedes new_context() (the body can call itself)', 'src/compiler.rs')
    check_frame_arith(ctx, rep, 'R12.4')
    rep.rule('R12.7', 'deep recursion ends at a limit of the machine, not of the host: the number of call frames is bounded by a test with an error edge')
    check_frame_depth(ctx, rep, 'R12.7')
    rep.rule('R12.8', 'a name in the caller means the caller\'s variable: the lookup answers from the scope structure as it is now - state it reads besides (a cache of answers) is brought up to date when a function context is entered or left')
    from rules import c09 as _c09
    _c09.check_memo(ctx, rep, 'R12.8')


def _norm(v, env, roles, depth=0):
    """value modulo widening: casts, From/Into conversions and borrows removed; a field read of a Frame built in this body is
    replaced by the operand stored there"""
    for _ in range(24):
        if not isinstance(v, tuple) or not v:
            return v
        if v[0] == 'cast':
            v = v[1]
        elif v[0] == 'ref' and v[1] in env:
            v = env[v[1]]
        elif v[0] == 'call' and v[1].endswith(('::from', '::into')) and len(v[2]) == 1 and 'convert' in v[1]:
            v = v[2][0]
        elif v[0] == 'field' and depth < 6:
            inner = _norm(v[1], env, roles, depth + 1)
            if isinstance(inner, tuple) and inner and inner[0] == 'call' and inner[1] == 'vm::Frame::new' and v[2] in roles['by_name']:
                v = inner[2][roles['by_name'][v[2]]]
            elif isinstance(inner, tuple) and inner and inner[0] == 'agg' and inner[1] == 'vm::Frame' and v[2] in roles['field_index']:
                v = inner[3][roles['field_index'][v[2]]]
            else:
                return ('field', inner, v[2])
        else:
            return v
    return v


def frame_roles(F):
    """which field of Frame holds the return address / the base: read from the constructor (parameter -> field)"""
    fr = F.adt('vm::Frame')
    names = [f['name'] for f in fr['variants'][0]['fields']]
    roles = {'field_index': {n: i for i, n in enumerate(names)}, 'by_name': {}, 'ip': None, 'base': None}
    new = F.fns.get('vm::Frame::new')
    if new is not None:
        for pth, r in ret_exprs(F, new):
            if r and r[0] == 'agg' and r[1] == 'vm::Frame':
                for i, x in enumerate(r[3]):
                    x = uncast(x)
                    if x == ('local', 1):
                        roles['ip'] = names[i]
                        roles['by_name'][names[i]] = 0
                    elif x == ('local', 2):
                        roles['base'] = names[i]
                        roles['by_name'][names[i]] = 1
    if roles['ip'] is None or roles['base'] is None:
        # no constructor: the usize field is the return address, the narrow one the base
        for f in fr['variants'][0]['fields']:
            if f['ty'] == 'usize':
                roles['ip'] = f['name']
            elif f['ty'] in ('u16', 'u32'):
                roles['base'] = f['name']
    return roles


def frame_contracts(ctx, rep, rule='R12.2'):
    """R12.2: pushframe saves the return address in the frame being left, pushes a frame (entry, base) and makes (entry, base)
    current; popframe drops the top frame, cuts the stack at ITS base and restores ip/bp from the frame below."""
    F = ctx.facts()
    roles = frame_roles(F)
    vm = F.adt('vm::VM')
    vmf = [f['name'] for f in vm['variants'][0]['fields']]
    pfn = F.fn('vm::VM::pushframe')
    ps = [p for p in AbsInt(F, pfn).run() if p.exit == 'return']
    ok = len(ps) == 1 and roles['ip'] is not None and roles['base'] is not None
    why = []
    cur = {}
    form = {}
    if ok:
        p = ps[0]
        # the current ip/bp registers: the VM fields that end up holding the parameters
        for i, n in enumerate(vmf):
            val = p.env.get('_1.*.f%d' % i)
            if val is None:
                continue
            nv = _norm(val, p.env, roles)
            if nv == ('local', 2) or nv == ('field', ('local', 2), roles['ip']):
                cur['ip'] = (i, n)
                form['ip'] = nv
            elif nv == ('local', 3) or nv == ('field', ('local', 2), roles['base']):
                cur['bp'] = (i, n)
                form['base'] = nv
        if 'ip' not in cur or 'bp' not in cur:
            ok = False
            why.append('the entry address / base parameters do not become the current ip / bp (%s)' % sorted(cur))
        else:
            old_ip = ('field', ('deref', ('local', 1)), cur['ip'][1])
            saved = [x for x in p.writes if place_fields(x[3]['place'])[-1:] == [roles['ip']] and x[3]['place']['local'] != 1 and x[2] == old_ip]
            src_ok = any('last_mut' in show(p.env.get('_%d' % x[3]['place']['local'], ())) or 'last_mut' in str(p.env.get('_%d' % x[3]['place']['local'], ())) for x in saved)
            if not saved or not src_ok:
                ok = False
                why.append('the current ip is not stored into the last frame before it changes')
            push = [c for c in p.calls if c[1] == 'alloc::vec::Vec::<T, A>::push' and len(c[2]) == 2]
            okpush = False
            for c in push:
                fv = _norm(c[2][1], p.env, roles)
                if isinstance(fv, tuple) and fv and fv[0] == 'call' and fv[1] == 'vm::Frame::new':
                    a_ip, a_base = _norm(fv[2][0], p.env, roles), _norm(fv[2][1], p.env, roles)
                elif isinstance(fv, tuple) and fv and fv[0] == 'agg' and fv[1] == 'vm::Frame':
                    a_ip = _norm(fv[3][roles['field_index'][roles['ip']]], p.env, roles)
                    a_base = _norm(fv[3][roles['field_index'][roles['base']]], p.env, roles)
                elif fv == ('local', 2) and pfn.local_ty(2) == 'vm::Frame':
                    # the frame is handed in ready-made: it is pushed as it is, and ip / bp were taken from its fields above
                    a_ip, a_base = form.get('ip'), form.get('base')
                    if a_ip == ('field', ('local', 2), roles['ip']) and a_base == ('field', ('local', 2), roles['base']):
                        okpush = True
                    continue
                else:
                    continue
                if a_ip == ('local', 2) and a_base == ('local', 3):
                    okpush = True
            if len(push) != 1 or not okpush:
                ok = False
                why.append('exactly one Frame(entry, base) must be pushed')
    rep.ob(ok, rule, pfn.path, 'contract', '; '.join(why) or 'stores the current ip into the frame being left, pushes Frame(ip, base), sets ip and bp', pfn.loc())
    ctx.__dict__['_pushframe_form'] = form if ok else None
    pop = F.fn('vm::VM::popframe')
    ps = [p for p in AbsInt(F, pop).run() if p.exit == 'return']
    ok = len(ps) == 1 and 'ip' in cur and 'bp' in cur
    why = []
    if ok:
        p = ps[0]
        names = [c[1].split('::')[-1] for c in p.calls]
        if [n for n in names if n in ('pop', 'truncate', 'last')] != ['pop', 'truncate', 'last']:
            ok = False
            why.append('expected frames.pop(), stack.truncate(..), frames.last() in this order, got %s' % [n for n in names if n in ('pop', 'truncate', 'last', 'push', 'clear')])
        tr = [c for c in p.calls if c[1].endswith('::truncate')]
        if ok:
            tv = _norm(tr[0][2][1], p.env, roles)
            if not (isinstance(tv, tuple) and tv[0] == 'field' and tv[2] == roles['base'] and 'pop' in show(tv[1])):
                ok = False
                why.append('the stack is not cut at the base of the popped frame: %s' % show(tv)[:80])
            for reg, role in (('ip', 'ip'), ('bp', 'base')):
                val = p.env.get('_1.*.f%d' % cur[reg][0])
                nv = _norm(val, p.env, roles) if val is not None else None
                if not (isinstance(nv, tuple) and nv and nv[0] == 'field' and nv[2] == roles[role] and 'last(' in show(nv[1]) and 'pop(' not in show(nv[1])):
                    ok = False
                    why.append('%s is not restored from the %s of the new last frame: %s' % (cur[reg][1], roles[role], show(nv)[:80] if nv else None))
    rep.ob(ok, rule, pop.path, 'contract', '; '.join(why) or 'frames.pop(); stack.truncate(popped.base); ip/bp restored from the new last frame', pop.loc())


def call_trip_value(call):
    out = []
    for r in call['paths']:
        for l in r['loops'].values():
            out.append(l['trip'])
    return out


def base_form(v):
    """recognise (len(stack) [as u16]) - 1 - argc in checked or plain form"""
    def unwrap(x):
        x = uncast(x)
        if x[0] == 'field' and x[1][0] == 'binop' and x[1][1].endswith('WithOverflow'):
            return ('binop', x[1][1][:-12], x[1][2], x[1][3])
        return x
    x = unwrap(v)
    if x[0] == 'binop' and x[1] == 'Sub':
        inner = unwrap(x[2])
        argc = uncast(x[3])
        if inner[0] == 'binop' and inner[1] == 'Sub' and int_of(inner[3]) == 1:
            ln = uncast(inner[2])
            if ln[0] == 'call' and ln[1].endswith('Vec::<T, A>::len') and argc[0] == 'call' and argc[1] == 'vm::VM::read_u8':
                return 'len-1-argc'
    # checked forms: try_from / checked_sub chains
    s_ = show(v)
    if 'len' in s_ and 'read_u8' in s_ and ('checked_sub' in s_ or 'Sub' in s_):
        return 'len-1-argc' if s_.count('1_') >= 1 else 'other'
    return 'other'


def check_frame_arith(ctx, rep, rule):
    F = ctx.facts()
    v = vmx.vmx(ctx)
    fn = v['fn']
    call = v['arms'].get('Call')
    # R12.4
    sites = [s for s in psc.census(ctx) if (s['fn'] == fn.path and s['block'] in call['region'] and s['kind'] == 'assert')
             or (s['fn'] in ('vm::VM::get_local', 'vm::VM::set_local', 'vm::VM::pushframe', 'vm::VM::popframe') and s['kind'] == 'assert')]
    for s in sites:
        okv, why = c05.verdict_for(ctx, s)
        rep.ob(okv, rule, s['fn'], ('Call arm ' if s['fn'] == fn.path else 'frame arithmetic ') + '%s#%d' % (s['what'], s['ord']),
               why if okv else 'unguarded arithmetic on the stack length / argument count: %s (%s)' % (str(sym(fn, s['term']['cond']))[:120], why), span_loc(s['span']))
    ncast = 0
    for b in sorted(call['region']):
        for st in fn.blocks[b]['stmts']:
            if st['k'] == 'assign' and st['rv']['k'] == 'cast' and st['rv']['ck'] == 'IntToInt' and st['rv']['from'] in ('usize', 'u64') and st['rv']['to'] in ('u16', 'u8'):
                ncast += 1
                val = sym(fn, st['rv']['op'])
                facts = psc.facts_at(fn, b)
                guarded = any(f[0] in ('Le', 'Lt') and strip(f[1]) == strip(val) for f in facts)
                rep.ob(guarded, rule, fn.path, 'Call arm truncating cast %s as %s' % (st['rv']['from'], st['rv']['to']),
                       'the stack length is narrowed to 16 bits without a bound check: beyond 65535 slots the frame base silently wraps', span_loc(st['span']))
    rep.count('call_arm_casts', ncast)



def check_frame_depth(ctx, rep, rule):
    """the stack of call frames is bounded: a program that calls without end (`functie f() { f() } f()` needs no operand slot
    per call, so the 16-bit operand-stack guard never fires) must end in an error, not in the process running out of memory.
    Every push onto VM.frames that a running program can reach is preceded - in the function that pushes, or at every call
    site of that function - by a comparison of frames.len() with a constant whose failing side returns an error."""
    from rules import psc
    F = ctx.facts()
    vm = F.adt('vm::VM')
    fidx = next((i for i, f in enumerate(vm['variants'][0]['fields']) if f['name'] == 'frames'), None)
    if fidx is None:
        cand = [i for i, f in enumerate(vm['variants'][0]['fields']) if 'Frame' in f['ty'] and 'Vec<' in f['ty']]
        if len(cand) != 1:
            raise CheckerError('%s: anchor not found: the field of VM that holds the call frames' % rule)
        fidx = cand[0]
    fname = vm['variants'][0]['fields'][fidx]['name']

    def on_frames(fn, op):
        s_ = str(psc.sym(fn, op))
        return "'field', ('deref', ('param', 1)), '%s'" % fname in s_

    def guarded(fn, b):
        for f in psc.facts_at(fn, b):
            if f[0] in ('Lt', 'Le', 'Gt', 'Ge'):
                a, c = psc.strip(f[1]), psc.strip(f[2])
                for x, y in ((a, c), (c, a)):
                    if x[0] == 'len' and "'%s'" % fname in str(x) and y[0] == 'int':
                        # the surviving side must bound the length from above, by a number of frames a host can hold
                        # (2^24 frames of 16 bytes are 256 MB; `len < usize::MAX` is no bound)
                        upper = (x is a and f[0] in ('Lt', 'Le')) or (x is c and f[0] in ('Gt', 'Ge'))
                        if upper and 0 < y[1] <= (1 << 24):
                            return True
        return False
    def guarded_on_arm_paths(target_name):
        """path-sensitive form for the dispatch function: on every enumerated path of an opcode arm that reaches the call, an
        earlier branch compared frames.len() with a constant bound and the path took the bounded side (the guard may sit in a
        helper that answers Ok / Err and is followed by `?`: then no branch dominates, but every surviving path passed it)"""
        from rules import vmx as _vmx
        from rules.shared import truth as _truth
        v = _vmx.vmx(ctx)
        seen = 0
        for op, arm in v['arms'].items():
            for r in arm['paths']:
                p = r['path']
                idx = [i for i, c in enumerate(p.calls) if c[1] == target_name]
                if not idx:
                    continue
                seen += 1
                ok = False
                for (what, val, cb) in p.constraints:
                    if what[0] != 'switch':
                        continue
                    c = what[1]
                    tv = True if val is None else bool(val)
                    while isinstance(c, tuple) and c and c[0] == 'unop' and c[1] == 'Not':
                        c = c[2]
                        tv = not tv
                    if not (isinstance(c, tuple) and c and c[0] == 'binop' and c[1] in ('Lt', 'Le', 'Gt', 'Ge')):
                        continue
                    op_ = c[1] if tv else {'Lt': 'Ge', 'Le': 'Gt', 'Gt': 'Le', 'Ge': 'Lt'}[c[1]]
                    a, b_ = psc.strip(c[2]), psc.strip(c[3])
                    sa, sb = str(c[2]), str(c[3])
                    for x, xs, y, side in ((a, sa, b_, 'l'), (b_, sb, a, 'r')):
                        is_len = ('Vec::<T, A>::len' in xs or 'PtrMetadata' in xs) and ('.f%d' % fidx in xs or "'%s'" % fname in xs)
                        if is_len and isinstance(y, tuple) and y and y[0] == 'int':
                            upper = (side == 'l' and op_ in ('Lt', 'Le')) or (side == 'r' and op_ in ('Gt', 'Ge'))
                            if upper and 0 < y[1] <= (1 << 24):
                                ok = True
                if not ok:
                    return False
        return seen > 0

    sites = []
    for fn in F.all_fns:
        if fn.crate != 'lib' or not fn.path.startswith('vm::VM::') or fn.path == 'vm::VM::new':
            continue
        for b, t in fn.calls():
            if callee_name(t) == 'alloc::vec::Vec::<T, A>::push' and on_frames(fn, t['args'][0]):
                sites.append((fn, b, t))
    def after_reset(fn, b):
        """the push re-creates the base frame right after the list was emptied (`frames.clear(); frames.push(Frame::new(0, 0))` at
        the start of a run): the list then holds one frame - it is not a call"""
        loops_b = [set(body) for h, body in fn.natural_loops() if b in body]
        for cb, ct in fn.calls():
            if callee_name(ct) in ('alloc::vec::Vec::<T, A>::clear',) and ct['args'] and on_frames(fn, ct['args'][0]) and cb != b and fn.dominates(cb, b) \
                    and all(cb in L for L in loops_b):
                between = fn.reachable(ct['target'], stop={b}) if ct.get('target') is not None else set()
                if not any(callee_name(t2) == 'alloc::vec::Vec::<T, A>::push' and on_frames(fn, t2['args'][0]) for b2, t2 in fn.calls(between - {b})):
                    return True
        return False
    n = 0
    for fn, b, t in sites:
        n += 1
        if after_reset(fn, b):
            rep.good(rule, fn.path, 'frames.push#%d' % n, 'the base frame, pushed right after the frame list was cleared', span_loc(t['span']))
            continue
        ok = guarded(fn, b)
        where = 'in the function'
        if not ok:
            callers = [(cf, cb, ct) for cf, cb, ct in F.callers_of(lambda p, fp=fn.path: p == fp) if cf.crate == 'lib']
            ok = bool(callers) and all(guarded(cf, cb) for cf, cb, ct in callers)
            where = 'at each of its %d call sites' % len(callers)
            if not ok and callers:
                ok = guarded_on_arm_paths(fn.path)
                where = 'on every path of the opcode arm that reaches the push'
        rep.ob(ok, rule, fn.path, 'frames.push#%d' % n, 'the number of call frames is compared with a constant bound %s before a frame is pushed, the failing side being an error return%s' % (
            where, '' if ok else ' - missing: endless recursion without arguments or locals grows the frame list until the allocator aborts the process'), span_loc(t['span']))
    rep.count('frame_push_sites', n)
    if n == 0:
        raise CheckerError('%s: anchor not found: no push onto VM.%s in the VM' % (rule, fname))
