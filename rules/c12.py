"""C12 — calls bind arguments, isolate activations and resume the caller intact (protocol rules)."""
from mirlib import *
from rules import vmx, csa_run, psc, c05
from rules.psc import sym, strip
from rules.shared import deref

META = {
    'title': 'Calls bind arguments, isolate activations and resume the caller intact',
    'explanation': 'The calling convention is checked on both sides. Compiler (CSA code stream): arguments left to right, then the callee, '
                   'then Call(argc = arguments.len()); a function literal defines its name, opens a fresh context, defines the parameters in '
                   'order (slot i = parameter i). VM (MIR paths of the Call / ReturnValue / Return arms and of pushframe/popframe): the frame '
                   'base is computed from the stack length read BEFORE the callee is popped as len - 1 - argc, locals are padded from the '
                   'num_locals of the same function value, pushframe stores the current ip into the frame it leaves; popframe pops the frame, '
                   'truncates the stack to its base and restores ip/bp from the new last frame; exactly one result is pushed. 16-bit frame '
                   'arithmetic must be guarded.',
    'not_decided': ['independence of activations as a run-time fact; results of deep recursion'],
}


def run(ctx, rep):
    F = ctx.facts()
    R = csa_run.analyse(ctx)
    v = vmx.vmx(ctx)
    fn = v['fn']
    rep.rule('R12.1', 'calling convention agrees on both sides (argument order, callee last, argc, frame base, padding, pushframe after the fetch)')
    rep.rule('R12.2', 'return protocol: pop frame, truncate the stack to its base, restore ip/bp, push exactly one value')
    rep.rule('R12.3', 'a named function is declared before its body is compiled')
    rep.rule('R12.4', '16-bit frame arithmetic is guarded; an argument count the callee cannot hold is an error')
    # ---- compiler side -----------------------------------------------------------------------
    seen = set()
    for a in R['arms']:
        if a['method'] != 'compile_expression' or not a['trace'].startswith('Expr::Call') or not a['reach']:
            continue
        stream = []
        for c in a['code']:
            if c['kind'] == 'blob':
                stream.append('<%s>' % (c['arg'] or '').split('/')[-1])
            else:
                stream.append(c['op'])
        key = tuple(stream)
        if key in seen:
            continue
        seen.add(key)
        if stream[-1:] == ['Call']:
            ok = stream[-2:] == ['<Call.left>', 'Call'] and all(s == '<Call.arguments[]>' for s in stream[:-2])
            rep.ob(ok, 'R12.1', 'compiler::Compiler::compile_expression', 'Call stream ' + ' '.join(stream)[:80],
                   'arguments (in list order), then the callee, then OpCode::Call', 'src/compiler.rs')
        elif stream[-1:] == ['CallBuiltin']:
            ok = all(s == '<Call.arguments[]>' for s in stream[:-1])
            rep.ob(ok, 'R12.1', 'compiler::Compiler::compile_expression', 'CallBuiltin stream ' + ' '.join(stream)[:80], 'arguments in list order, then OpCode::CallBuiltin', 'src/compiler.rs')
    rep.count('call_streams', len(seen))
    if not seen:
        rep.bad('R12.1', 'compiler::Compiler::compile_expression', 'Call arm', 'no path of the Call arm found', 'src/compiler.rs')
    # argc provenance is an O8 obligation
    for x in R['violations']:
        if x['oblig'] == 'O8' and ('Call' in x['text']):
            rep.bad('R12.1', 'compiler::Compiler::' + x['method'], x['construct'], x['text'], 'src/compiler.rs')
    for x in R['violations']:
        if x['oblig'] == 'R12.1':
            rep.bad('R12.1', 'compiler::Compiler::' + x['method'], x['construct'], x['text'], 'src/compiler.rs')
    # ---- VM side: Call arm ---------------------------------------------------------------------
    call = v['arms'].get('Call')
    if not call:
        raise CheckerError('no Call arm')
    npaths = 0
    for r in call['paths']:
        if r['kind'] != 'continue':
            continue
        npaths += 1
        p = r['path']
        names = [c[1] for c in p.calls]
        pf = [c for c in p.calls if c[1] == 'vm::VM::pushframe']
        ok = len(pf) == 1
        why = []
        if ok:
            ipv, bpv = deref(p.env, pf[0][2][1]), deref(p.env, pf[0][2][2])
            # base pointer: (len(stack) as u16 - 1) - argc  (any checked/unchecked spelling)
            s_bp = show(bpv)
            lens = [i for i, c in enumerate(p.calls) if c[1] == 'alloc::vec::Vec::<T, A>::len' and 'f0' in str(c[2]) or (c[1] == 'alloc::vec::Vec::<T, A>::len' and True)]
            len_idx = next((i for i, c in enumerate(p.calls) if c[1] == 'alloc::vec::Vec::<T, A>::len'), None)
            pop_idx = next((i for i, c in enumerate(p.calls) if c[1] == 'vm::VM::pop'), None)
            fetch_idx = next((i for i, c in enumerate(p.calls) if c[1] == 'vm::VM::read_u8'), None)
            if len_idx is None or pop_idx is None or not (len_idx < pop_idx):
                ok = False
                why.append('the stack length used for the frame base must be read before the callee is popped')
            form = base_form(bpv)
            if form != 'len-1-argc':
                ok = False
                why.append('frame base is %s, expected len - 1 - argc' % s_bp[:120])
            # ip from as_function(popped callee)[0]
            if 'as_function' not in show(ipv) or 'pop' not in show(ipv):
                ok = False
                why.append('entry ip does not come from the popped function value: %s' % show(ipv)[:80])
            if fetch_idx is None or p.calls.index(pf[0]) < fetch_idx:
                ok = False
                why.append('pushframe before the operand fetch (the saved ip would point at the operand)')
            # padding trip count
            for l in r['loops'].values():
                tr = l['trip'] or ''
                if not ('operand#1' in tr and 'Sub' in tr or tr.startswith('proj') or 'as_function' in tr):
                    pass
        rep.ob(ok, 'R12.1', fn.path, 'Call arm path %d' % npaths, '; '.join(why) or 'base = len-1-argc read before the pop; ip from the callee; pushframe after the fetch', 'src/vm.rs')
    # padding: loop pushes null, count from num_locals (>= num_locals - argc)
    pads = set()
    for r in call['paths']:
        for l in r['loops'].values():
            if l['iters']:
                pads.add((l['pushes'] // l['iters'], l['trip']))
    okpad = len(pads) == 1 and next(iter(pads))[0] == 1 and 'as_function' in str(call_trip_value(call))
    rep.ob(okpad, 'R12.1', fn.path, 'Call arm padding', 'local slots are padded with one null per missing slot, the count deriving from num_locals of the called function: %s' % sorted(pads), 'src/vm.rs')
    # pushframe / popframe
    pfn = F.fn('vm::VM::pushframe')
    ps = [p for p in AbsInt(F, pfn).run() if p.exit == 'return']
    ok = len(ps) == 1
    if ok:
        p = ps[0]
        w = [(x[1], x[2]) for x in p.writes]
        # first write: (last frame).ip = self.ip  before the push
        saved = [x for x in p.writes if 'ip' in place_fields(x[3]['place']) and x[2] == ('field', ('deref', ('local', 1)), 'ip')]
        push = [c for c in p.calls if c[1] == 'alloc::vec::Vec::<T, A>::push']
        fnew = [c for c in p.calls if c[1] == 'vm::Frame::new']
        okargs = bool(fnew) and uncast(fnew[0][2][0]) == ('local', 2) and fnew[0][2][1] == ('local', 3)
        setip = [x for x in p.writes if x[1] in ('_1.*.f4',) or (place_fields(x[3]['place']) == ['ip'] and x[3]['place']['local'] == 1)]
        ok = bool(saved) and len(push) == 1 and okargs and any(uncast(x[2]) == ('local', 2) for x in p.writes if place_fields(x[3]['place']) == ['ip']) \
            and any(x[2] == ('local', 3) for x in p.writes if place_fields(x[3]['place']) == ['bp'])
    rep.ob(ok, 'R12.2', pfn.path, 'contract', 'stores the current ip into the frame being left, pushes Frame::new(ip, base), sets ip and bp', pfn.loc())
    pop = F.fn('vm::VM::popframe')
    ps = [p for p in AbsInt(F, pop).run() if p.exit == 'return']
    ok = len(ps) == 1
    if ok:
        p = ps[0]
        names = [c[1].split('::')[-1] for c in p.calls]
        seq_ok = [n for n in names if n in ('pop', 'truncate', 'last')] == ['pop', 'truncate', 'last']
        tr = [c for c in p.calls if c[1].endswith('::truncate')]
        tr_ok = bool(tr) and 'base_pointer' in show(tr[0][2][1]) and 'pop' in show(tr[0][2][1])
        ipw = [x for x in p.writes if place_fields(x[3]['place']) == ['ip']]
        bpw = [x for x in p.writes if place_fields(x[3]['place']) == ['bp']]
        rest_ok = bool(ipw) and 'last' in show(ipw[0][2]) and 'ip' in show(ipw[0][2]) and bool(bpw) and 'last' in show(bpw[0][2]) and 'base_pointer' in show(bpw[0][2])
        ok = seq_ok and tr_ok and rest_ok
    rep.ob(ok, 'R12.2', pop.path, 'contract', 'frames.pop(); stack.truncate(popped.base_pointer); ip/bp restored from the new last frame', pop.loc())
    # Return arms
    for op, want in (('ReturnValue', ['pop', 'popframe', 'push']), ('Return', ['popframe', 'push'])):
        arm = v['arms'].get(op)
        for r in (arm['paths'] if arm else []):
            if r['kind'] != 'continue':
                continue
            ev = [e for e in r['events'] if e in ('pop', 'popframe', 'push', 'pushframe')]
            pushed = r['pushed']
            okv = ev == want and len(pushed) == 1 and ((op == 'ReturnValue' and pushed[0] == 'pop#1') or (op == 'Return' and pushed[0].startswith('null')))
            rep.ob(okv, 'R12.2', fn.path, '%s arm' % op, 'events %s, pushes %s' % (ev, pushed), 'src/vm.rs')
    # R12.3
    from synlib import find_all, render_pat
    S = ctx.syn()
    ce = S.method('src/compiler.rs', 'Compiler', 'compile_expression')
    farm = [a for m in find_all(ce['body'], lambda n: n.get('k') == 'match') for a in m['arms'] if render_pat(a['pat']).startswith('Expr::Function')]
    ok = False
    if len(farm) == 1:
        order = [n['method'] for n in find_all(farm[0]['body'], lambda n: n.get('k') == 'mcall') if n['method'] in ('define', 'new_context')]
        ok = order[:2] == ['define', 'new_context']
    rep.ob(ok, 'R12.3', 'compiler::Compiler::compile_expression', 'Expr::Function', 'define(name) precedes new_context() (the body can call itself)', 'src/compiler.rs')
    check_frame_arith(ctx, rep, 'R12.4')


def call_trip_value(call):
    out = []
    for r in call['paths']:
        for l in r['loops'].values():
            out.append(l['trip'])
    return out


def base_form(v):
    """recognise (len(stack) [as u16]) - 1 - argc in checked or plain form"""
    def unwrap(x):
        x = uncast(x)
        if x[0] == 'field' and x[1][0] == 'binop' and x[1][1].endswith('WithOverflow'):
            return ('binop', x[1][1][:-12], x[1][2], x[1][3])
        return x
    x = unwrap(v)
    if x[0] == 'binop' and x[1] == 'Sub':
        inner = unwrap(x[2])
        argc = uncast(x[3])
        if inner[0] == 'binop' and inner[1] == 'Sub' and int_of(inner[3]) == 1:
            ln = uncast(inner[2])
            if ln[0] == 'call' and ln[1].endswith('Vec::<T, A>::len') and argc[0] == 'call' and argc[1] == 'vm::VM::read_u8':
                return 'len-1-argc'
    # checked forms: try_from / checked_sub chains
    s_ = show(v)
    if 'len' in s_ and 'read_u8' in s_ and ('checked_sub' in s_ or 'Sub' in s_):
        return 'len-1-argc' if s_.count('1_') >= 1 else 'other'
    return 'other'


def check_frame_arith(ctx, rep, rule):
    F = ctx.facts()
    v = vmx.vmx(ctx)
    fn = v['fn']
    call = v['arms'].get('Call')
    # R12.4
    sites = [s for s in psc.census(ctx) if (s['fn'] == fn.path and s['block'] in call['region'] and s['kind'] == 'assert')
             or (s['fn'] in ('vm::VM::get_local', 'vm::VM::set_local', 'vm::VM::pushframe', 'vm::VM::popframe') and s['kind'] == 'assert')]
    for s in sites:
        okv, why = c05.verdict_for(ctx, s)
        rep.ob(okv, rule, s['fn'], ('Call arm ' if s['fn'] == fn.path else 'frame arithmetic ') + '%s#%d' % (s['what'], s['ord']),
               why if okv else 'unguarded arithmetic on the stack length / argument count: %s (%s)' % (str(sym(fn, s['term']['cond']))[:120], why), span_loc(s['span']))
    ncast = 0
    for b in sorted(call['region']):
        for st in fn.blocks[b]['stmts']:
            if st['k'] == 'assign' and st['rv']['k'] == 'cast' and st['rv']['ck'] == 'IntToInt' and st['rv']['from'] in ('usize', 'u64') and st['rv']['to'] in ('u16', 'u8'):
                ncast += 1
                val = sym(fn, st['rv']['op'])
                facts = psc.facts_at(fn, b)
                guarded = any(f[0] in ('Le', 'Lt') and strip(f[1]) == strip(val) for f in facts)
                rep.ob(guarded, rule, fn.path, 'Call arm truncating cast %s as %s' % (st['rv']['from'], st['rv']['to']),
                       'the stack length is narrowed to 16 bits without a bound check: beyond 65535 slots the frame base silently wraps', span_loc(st['span']))
    rep.count('call_arm_casts', ncast)

