"""CSA machine: transfer functions of the compiler's code-buffer primitives on the abstract state."""
from rules.csa_state import H, Label, LoopCtx, State

FALLTHROUGH = ('fallthrough', 'cond-jump', 'call')


class Machine:
    def __init__(self, optable, operands_decl):
        """optable: opcode -> VMX summary dict(fetch,pops,pushes,loops,class); operands_decl: opcode -> widths
        from OpCode::operands()"""
        self.optable = optable
        self.operands_decl = operands_decl
        self.labels = {}

    # -- helpers ------------------------------------------------------------------------
    def expected_widths(self, op):
        s = self.optable.get(op)
        return list(s['fetch']) if s else None

    def finalize(self, st):
        cur = st.cur
        if cur is None:
            return
        st.cur = None
        op = cur['op']
        s = self.optable.get(op)
        if s is None:
            st.viol('O8', 'opcode %s has no VM arm' % op)
            return
        widths = [w for w, _ in cur['operands']]
        if widths != list(s['fetch']):
            st.viol('O8', 'OpCode::%s emitted with operand widths %s but the VM arm reads %s' % (op, widths, list(s['fetch'])))
        decl = self.operands_decl.get(op)
        if decl is not None and list(decl) != list(s['fetch']):
            st.viol('O8', 'OpCode::operands() declares %s for %s but the VM arm reads %s' % (list(decl), op, list(s['fetch'])))
        provs = [av for _, av in cur['operands']]
        st.emits.append((op, tuple(provs)))
        self.check_prov(st, op, provs)
        # stack effect
        pops = H(s['pops'])
        pushes = s['pushes']
        ok_effect = True
        for (lp_pops, lp_push, trip) in s['loops']:
            if lp_pops == 0 and lp_push == 0:
                continue
            if s['class'] == 'call':
                continue
            if trip and trip.startswith('operand#'):
                k = int(trip.split('#')[1]) - 1
                av = provs[k] if k < len(provs) else None
                if av and av[0] == 'len' and st.facts.get(('empty', av[1])) is True:
                    pass
                elif av and av[0] == 'len':
                    if lp_pops:
                        pops = pops.add_sym(av[1], lp_pops)
                    if lp_push:
                        pops = pops.add_sym(av[1], -lp_push)
                elif av and av[0] == 'int':
                    pops = pops.add(lp_pops * av[1] - lp_push * av[1])
                else:
                    ok_effect = False
                    st.viol('O8', 'OpCode::%s pops operand#%d values but that operand is %s, not the length of the compiled list' % (op, k + 1, show_av(av)))
            else:
                ok_effect = False
                st.viol('O8', 'OpCode::%s has a data-dependent stack effect (%s) the analysis cannot bound' % (op, trip))
        if s['class'] == 'call':
            # protocol (C12): callee + argc operands are consumed, exactly one result is left
            av = provs[0] if provs else None
            if av and av[0] == 'len' and st.facts.get(('empty', av[1])) is True:
                pops = H(1)
            elif av and av[0] == 'len':
                pops = H(1).add_sym(av[1], 1)
            elif av and av[0] == 'int':
                pops = H(1 + av[1])
            else:
                st.viol('O8', 'OpCode::Call argument count operand is %s, not the length of the compiled argument list' % show_av(av))
                ok_effect = False
            pushes = 1
        if st.reach:
            after_pops = st.h.sub(pops)
            if after_pops.c < 0 or any(k < 0 for _, k in after_pops.terms):
                st.viol('O1-underflow', 'OpCode::%s pops %s value(s) but only %s were pushed since the start of this construct '
                                        '(operand-stack underflow on some program)' % (op, pops, st.h))
            if s['class'] == 'return':
                # ReturnValue pops the result; the frame is discarded
                if st.frame == 0 and st.in_function is not True:
                    st.escapes.append(('return', st.h, 0, True, tuple(sorted(st.assume.items()))))
                after = after_pops
            else:
                after = after_pops.add(pushes)
            st.h = after
            # jumps
            if s['class'] in ('jump', 'cond-jump'):
                tgt = provs[0] if provs else None
                edge = {'h': after_pops if s['class'] == 'cond-jump' else after, 'frame': st.frame, 'reach': True, 'op': op}
                edge['h'] = after
                self.jump_edge(st, cur['pos'], tgt, edge)
            if s['class'] not in FALLTHROUGH:
                st.reach = False
        else:
            if s['class'] in ('jump', 'cond-jump'):
                tgt = provs[0] if provs else None
                self.jump_edge(st, cur['pos'], tgt, {'h': None, 'frame': st.frame, 'reach': False, 'op': op})

    def jump_edge(self, st, pos, tgt, edge):
        if tgt is None:
            return
        for c in reversed(st.code):
            if c['pos'] == pos and c['kind'] == 'op':
                c['target'] = ('pos', tgt[1]) if tgt[0] == 'pos' else (tgt[0],)
                break
        if tgt[0] == 'placeholder':
            st.pending[pos] = edge
        elif tgt[0] == 'pos':
            lab = st.labels.get(tgt[1])
            if lab is None:
                st.viol('O7', 'jump operand is a position that was never captured as a label')
                return
            self.check_edge_label(st, edge, lab, 'backward jump')
        elif tgt[0] == 'outer_start':
            if st.frames and edge['reach']:
                st.viol('O6', '`volgende` inside a function body jumps to the start of a loop outside the function')
            st.escapes.append(('continue', edge['h'], st.frame, edge['reach'], tuple(sorted(st.assume.items()))))
        else:
            st.viol('O7', 'jump operand %s is neither a placeholder nor a captured code position' % show_av(tgt))

    def check_edge_label(self, st, edge, lab, what):
        if getattr(lab, 'stale', False):
            st.viol('O4', '%s uses a position captured before remove_last_instruction() shortened the code (it now points past the instruction)' % what)
        if not edge['reach']:
            return
        if not lab.boundary:
            st.viol('O7', '%s targets a position captured in the middle of an instruction' % what)
        if lab.reach is False and not getattr(lab, 'bound_live', False):
            return
        if lab.frame != edge['frame']:
            st.viol('O6', '%s crosses a function boundary (label in frame %s, jump in frame %s)' % (what, lab.frame, edge['frame']))
        elif lab.h != edge['h']:
            st.viol('O3', '%s: stack height at the jump is %s but %s at its target' % (what, edge['h'], lab.h))

    def check_prov(self, st, op, provs):
        fam = None
        s = self.optable[op]
        callees = s.get('callees', [])
        if op == 'Const':
            if not provs or provs[0][0] != 'constidx':
                st.viol('O8', 'Const operand is %s, not an index returned by add_constant' % show_av(provs[0] if provs else None))
        if s.get('reads_local') and len(provs) == 2 and provs[0] and provs[0][0] == 'symindex':
            st.fused.append({'op': op, 'name': st.facts.get(('symname', provs[0][1])),
                             'operator': sorted(v[1] for k, v in st.facts.items() if k[0] == 'variant' and isinstance(v, tuple) and v[0] == 'Operator'),
                             'trace': list(st.trace)})
        if s.get('reads_local'):
            av = provs[0] if provs else None
            if not av or av[0] != 'symindex':
                st.viol('O8', 'OpCode::%s slot operand is %s, not the index of a resolved symbol' % (op, show_av(av)))
            elif st.sym_scope.get(av[1]) != 'Local':
                st.viol('O8-scope', 'OpCode::%s (frame slot access) emitted for a symbol whose scope is %s' % (op, st.sym_scope.get(av[1], 'not tested')))
            if len(provs) > 1 and provs[1][0] != 'constidx':
                st.viol('O8', 'OpCode::%s constant operand is %s, not an index returned by add_constant' % (op, show_av(provs[1])))
        if s.get('reads_global'):
            av = provs[0] if provs else None
            if not av or av[0] != 'symindex':
                st.viol('O8', 'OpCode::%s slot operand is %s, not the index of a resolved symbol' % (op, show_av(av)))
            elif st.sym_scope.get(av[1]) != 'Global':
                st.viol('O8-scope', 'OpCode::%s (global slot access) emitted for a symbol whose scope is %s' % (op, st.sym_scope.get(av[1], 'not tested')))
        if s.get('writes_slot') and provs and provs[0] and provs[0][0] == 'symindex' and st.trace:
            # a declaration introduces a NEW variable in the scope that is current: the store that gives it its first value goes
            # to the slot define() handed out on this path, not to a variable of that name found by a lookup (an outer one)
            head = str(st.trace[0])
            if head.startswith(('Stmt::Let', 'Expr::Function')) and st.facts.get(('symhow', provs[0][1])) == 'resolve':
                nm = st.facts.get(('symname', provs[0][1]))
                if isinstance(nm, tuple) and nm and nm[0] == 'ast' and ('/Let.' in nm[1] or '/Function.name' in nm[1]):
                    st.viol('R09.9', 'the declared name is stored with OpCode::%s into a variable found by a lookup, not into the slot a definition in the current scope hands out' % op)
        if op == 'CallBuiltin':
            if not provs or provs[0][0] != 'builtin_byte':
                st.viol('O8', 'CallBuiltin operand#1 is %s, not `builtin as u8`' % show_av(provs[0] if provs else None))

    # -- primitives -----------------------------------------------------------------------
    def emit_opcode(self, st, op):
        self.finalize(st)
        st.last_emit = {'pos': st.pos, 'op': op, 'h': st.h, 'reach': st.reach, 'last': st.last, 'frame': st.frame}
        st.cur = {'op': op, 'operands': [], 'pos': st.pos}
        st.code.append({'kind': 'op', 'op': op, 'pos': st.pos, 'target': None, 'frame': st.frame})
        st.instr_at[st.pos] = op
        st.pos = st.next_pos
        st.next_pos += 1
        st.bound = []
        st.last = op
        st.emitted = True

    def emit_operand(self, st, width, av):
        if st.cur is None:
            st.viol('O8', 'operand byte(s) emitted without a preceding opcode')
            return
        st.cur['operands'].append((width, av))

    def on_boundary(self, st):
        if st.cur is None:
            return True
        exp = self.expected_widths(st.cur['op'])
        return exp is None or len(st.cur['operands']) >= len(exp)

    def here(self, st, name=None):
        b = self.on_boundary(st)
        if b:
            self.finalize(st)
        lab = st.labels.get(st.pos)
        if lab is None:
            lab = Label(st.pos, st.h, st.frame, st.reach, b, st.pos, name)
            st.labels[st.pos] = lab
        return ('pos', st.pos)

    def bind_here(self, st, edge, what):
        if not edge.get('reach', True):
            st.bound.append(edge)
            return
        if st.reach:
            if edge['frame'] != st.frame and getattr(st, 'fall_pending', None) == st.frame:
                st.viol('O5', 'the function body can fall off its end (no Return/ReturnValue on some path)')
                st.frame = edge['frame']
                st.fall_pending = None
                if edge['h'] is not None:
                    st.h = edge['h']
            elif edge['frame'] != st.frame:
                st.viol('O6', '%s: a jump from frame %s lands in code of frame %s (control leaves/enters a function body)' % (what, edge['frame'], st.frame))
            elif edge['h'] != st.h:
                st.viol('O3', '%s: stack height %s on the jump edge but %s on the fall-through/other edge at the same target' % (what, edge['h'], st.h))
        else:
            st.reach = True
            st.h = edge['h']
            st.frame = edge['frame']
            st.fall_pending = None
        st.bound.append(edge)
        lab = st.labels.get(st.pos)
        if lab is not None:
            lab.bound_live = True

    def patch(self, st, label_av, target_av, what='jump patched to the current position'):
        self.finalize(st)
        if not label_av or label_av[0] != 'pos':
            st.viol('O7', 'change_jump_operand_at called with %s, not a captured code position' % show_av(label_av))
            return
        edge = st.pending.pop(label_av[1], None)
        if edge is not None and target_av and target_av[0] == 'pos':
            for c in reversed(st.code):
                if c['kind'] == 'op' and c['pos'] == label_av[1]:
                    c['target'] = ('pos', target_av[1])
                    break
                if c['kind'] == 'blob' and label_av[1] in c.get('breaks', ()):
                    c.setdefault('break_targets', []).append(('pos', target_av[1]))
                    break
        if edge is None:
            op = st.instr_at.get(label_av[1])
            st.viol('O7', 'change_jump_operand_at patches a position that holds %s, not a jump emitted with a placeholder' % (op or 'no instruction'))
            return
        if not target_av or target_av[0] != 'pos':
            st.viol('O7', 'jump patched with %s, not a code position' % show_av(target_av))
            return
        if target_av[1] == st.pos:
            if not self.on_boundary(st):
                st.viol('O7', 'jump patched to a position in the middle of an instruction')
            self.bind_here(st, edge, edge.get('what') or what)
        else:
            lab = st.labels.get(target_av[1])
            if lab is None:
                st.viol('O7', 'jump patched to an unknown position')
            else:
                self.check_edge_label(st, edge, lab, what)

    def remove_last(self, st):
        self.finalize(st)
        le = st.last_emit
        if st.last in ('?', 'None') or le is None or le['op'] != st.last:
            st.viol('O4', 'remove_last_instruction with last_instruction = %s (not established by a guard in this construct)' % st.last)
            return
        s = self.optable.get(st.last)
        if s is None or s['fetch'] or s['class'] != 'fallthrough':
            st.viol('O4', 'remove_last_instruction removes OpCode::%s which has operands or transfers control' % st.last)
            return
        if st.bound:
            st.viol('O4', 'the position after the removed OpCode::%s is a jump target' % st.last)
        lab0 = st.labels.get(st.pos)
        if lab0 is not None:
            lab0.stale = True
        st.instr_at.pop(le['pos'], None)
        if st.code and st.code[-1]['kind'] == 'op' and st.code[-1]['op'] == st.last:
            st.code.pop()
        elif st.code and st.code[-1]['kind'] == 'blob':
            st.code[-1]['last_removed'] = st.last
        st.pos = le['pos']
        st.h = le['h']
        st.reach = le['reach']
        st.frame = le['frame']
        st.last = 'None'
        st.last_emit = None
        if st.emits:
            st.emits.pop()

    def new_context(self, st):
        self.finalize(st)
        if st.reach:
            st.viol('O5', 'a function body starts at a position the surrounding code can fall into')
        st.frames.append((st.frame, st.next_frame))
        st.ctx_depth += 1
        st.frame = st.next_frame
        st.next_frame += 1
        st.h = H(0)
        st.reach = True
        st.fn_entries[st.frame] = st.pos

    def leave_context(self, st):
        self.finalize(st)
        if not st.frames:
            st.viol('R09.1', 'leave_context() without a matching new_context() in this construct')
            return ('numlocals', None)
        outer, inner = st.frames.pop()
        st.ctx_depth -= 1
        if st.reach and st.frame == inner:
            # the symbol context is closed, the code of the body may not be finished yet (the closing Return can be emitted after
            # leave_context()): whether the body falls off its end is decided where the code after the function begins - at the
            # landing of the jump that skips the body
            st.fall_pending = inner
        return ('numlocals', inner)


def show_av(av):
    if av is None:
        return 'nothing'
    if not isinstance(av, tuple):
        return str(av)
    k = av[0]
    if k == 'len':
        return '%s.len()' % av[1]
    if k == 'pos':
        return 'code position #%s' % av[1]
    if k == 'symindex':
        return 'symbol#%s.index' % av[1]
    if k == 'constidx':
        return 'constant index'
    if k == 'int':
        return str(av[1])
    return k
