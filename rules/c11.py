"""C11 — structured control flow goes exactly where the source says (CSA on the control-flow arms +
the control-flow graph of the code each arm emits)."""
from mirlib import *
from rules import csa_run
from rules import shared as _shared

META = {
    'title': 'Structured control flow goes exactly where the source says',
    'explanation': 'For every path through the If / While / Function / Break / Continue / Return arms of the compiler, CSA records '
                   'the emitted instruction stream (opcodes, recursive sub-compilations as blobs, jump targets after patching). '
                   'The rules build the control-flow graph of that stream and check its shape: the false edge of an if skips '
                   'exactly the consequence and its trailing jump, the jump after the consequence skips exactly the alternative, '
                   'the loop back edge returns to the condition after the seed value, exit/stop edges go past the back jump, '
                   'volgende goes to the back-edge target, the skip-jump of a function literal lands right after the body; plus '
                   'the CSA height/frame obligations on these arms (O3 merge heights, O6 innermost-loop/same-function binding, '
                   'antwoord only inside functions, O2 no residue).'
                   ' The primitives that write a jump operand store the two bytes of a 16-bit value (checked narrowing to u16). R11.7 the peephole primitives that give a block its value look at the last instruction emitted, not the last byte. R11.8 a failed compilation leaves no loop context and no peephole record behind.',
    'not_decided': ['which branch runs for which run-time value; iteration counts'],
}
META['explanation'] += ' R11.9 the jump placeholder is only written, never read back. R11.10 every statement of a block, branch and loop body is compiled.'
META['explanation'] += ' R11.11 `anders als` chains nest each further `als` inside the alternative of the one before, so the conditions are tested in the order written.'
META['explanation'] += ' R11.12 whether an operand follows `antwoord` (and the like) is not decided by a list of expression-start tokens that lacks one the parser accepts.'
COMPILER = 'compiler::Compiler'


def graph(a):
    code = a['code']
    end = a['end_pos']

    def resolve(t):
        if t is None:
            return None
        if t[0] != 'pos':
            return t[0]
        for i, c in enumerate(code):
            if c['pos'] == t[1]:
                return i
        if t[1] == end:
            return 'END'
        return 'UNRESOLVED'
    return code, resolve


def walk(code, resolve, optable, start, stop_at=()):
    """entries visited from index `start` following fall-through and unconditional jumps until END / a stop index"""
    seen = []
    i = start
    for _ in range(200):
        if i == 'END' or i in stop_at or i is None or i == 'UNRESOLVED':
            return seen, i
        if not isinstance(i, int) or i >= len(code):
            return seen, 'END'
        c = code[i]
        seen.append(i)
        if c['kind'] == 'op':
            cls = optable.get(c['op'], {}).get('class')
            if cls == 'jump':
                i = resolve(c['target'])
                continue
            if cls in ('return', 'halt'):
                return seen, 'RET'
        else:
            if not c['reach']:
                return seen, 'DEAD'
        i = i + 1
    return seen, 'LOOP'


def run(ctx, rep):
    R = csa_run.analyse(ctx)
    opt = R['optable']
    rep.rule('R11.1', 'if: the false edge skips exactly the consequence and its trailing jump; the trailing jump skips exactly the alternative; both branches leave one value')
    rep.rule('R11.2', 'while: back edge returns to the condition after the seed; exit and `stop` edges go past the back jump; `volgende` goes to the back-edge target')
    rep.rule('R11.3', '`stop`/`volgende` bind to the innermost loop of the same function; `antwoord` only inside a function; function bodies are skipped by the enclosing code')
    rep.rule('R11.4', 'no residue: statements net zero and early exits do not abandon operands')
    rep.rule('R11.5', 'every jump target is an instruction boundary inside the emitted code')
    rep.rule('R11.6', 'an expression statement always ends in Pop (that Pop is what lets a block recover the value of its last expression statement)')
    check_stmt_expr_pop(R, rep, 'R11.6')
    # the positions CSA reasons about reach the code unchanged: the primitives that write a jump operand store the two bytes of a
    # 16-bit value (checked narrowing; a wider value would wrap the target around)
    from rules import c02 as _c02
    _c02.check_primitives(ctx, rep, rule='R11.5', only=('emit_u16', 'change_jump_operand_at'))
    # the value of a branch / loop body is recovered by asking whether the block's last INSTRUCTION is Pop and taking it out: the
    # peephole primitives answer for the last instruction written, not for the last byte (which may belong to a jump operand)
    rep.rule('R11.7', 'the peephole primitives that give a block its value look at the last instruction emitted: emit_opcode records it, last_instruction_is tests that record, remove_last_instruction removes exactly that instruction')
    _c02.check_primitives(ctx, rep, rule='R11.7', only=('emit_opcode', 'last_instruction_is', 'remove_last_instruction'))
    # `stop` / `volgende` outside any loop are rejected - also by a compiler that is kept after a failed line: no loop context (and no
    # peephole record) of the failed line is left behind
    rep.rule('R11.8', 'a failed compilation leaves no loop context and no peephole record behind: on the next line `stop` / `volgende` outside a loop are still rejected, and block values are not computed from stale state')
    n8 = 0
    for v in R['violations']:
        if v['oblig'] == 'R17.2' and ('loop context' in v['text'] or 'peephole' in v['text']):
            n8 += 1
            rep.bad('R11.8', COMPILER + '::' + v['method'], v['construct'], v['text'], 'src/compiler.rs', key=v['kc'])
    if not n8:
        rep.good('R11.8', COMPILER + '::compile_ast', 'error exits (CSA)', '%d error exits of the top-level driver examined: no loop context, no peephole record survives' % len(R.get('toperrs', [])), 'src/compiler.rs')

    rep.rule('R11.10', 'a block runs every one of its statements unless one of them really leaves: the compiler translates each statement of a block, a branch and a loop body (no statement is dropped because an earlier one `looks` final)')
    n10 = 0
    for v in R['violations']:
        if v['oblig'] == 'R09.6':
            n10 += 1
            rep.bad('R11.10', COMPILER + '::' + v['method'], v['construct'], v['text'], 'src/compiler.rs', key=v['kc'])
    if not n10:
        rep.good('R11.10', COMPILER, 'loops over statement lists', 'no loop of the compiler over a list of syntax-tree nodes has an early exit other than an error', 'src/compiler.rs')
    # CSA violations on the control-flow arms
    for v in R['violations']:
        c = v['construct']
        ob = v['oblig']
        rule = None
        if c.startswith('Expr::If') and ob in ('O1', 'O3', 'O7', 'O4'):
            rule = 'R11.1'
        elif c.startswith('Expr::While') and ob in ('O1', 'O3', 'O7', 'O4', 'O6'):
            rule = 'R11.2' if 'operand position' not in c and 'statement position' not in c else 'R11.4'
        elif ob == 'O6-operands':
            rule = 'R11.4'
        elif ob in ('O6', 'O5') or (c.startswith('Expr::Function') and ob in ('O3', 'O7')):
            rule = 'R11.3'
        elif ob == 'O2':
            rule = 'R11.4'
        if rule:
            rep.bad(rule, COMPILER + '::' + v['method'], '%s %s' % (ob, c), v['text'], 'src/compiler.rs', key='%s %s' % (v['oblig'], v['kc']))

    check_cfg(ctx, rep, {r: r for r in ('R11.1', 'R11.2', 'R11.3', 'R11.5')})
    rep.rule('R11.11', '`anders als` chains test their conditions in the order written: the parser nests each further `als` inside the alternative of the one before (a one-statement block holding the if-expression that starts there)')
    from rules import c07 as _c07
    _c07.check_else_if(ctx, rep, 'R11.11')
    rep.rule('R11.12', '`antwoord`, `stop` and the like take what follows them: a list of the tokens an expression can start with, used to decide whether an operand follows, agrees with the parser\'s own prefix dispatch')
    _c07.check_expression_starters(ctx, rep, 'R11.12')
    rep.rule('R11.9', 'the jump placeholder is only written, never read back: no code compares a value with it, so a jump whose real target equals the placeholder is an ordinary jump')
    _shared.check_placeholder_write_only(ctx, rep, 'R11.9')


def check_cfg(ctx, rep, m, pfx=''):
    """the control-flow graph of the code each If / While / Function arm of the compiler emits (m maps R11.1/2/3/5 to the rule ids of the
    calling property)"""
    R = csa_run.analyse(ctx)
    opt = R['optable']
    n_if = n_wh = n_fn = n_tg = 0
    done = set()
    for a in R['arms']:
        tr = a['trace']
        key = (a['method'], tr, tuple((c['kind'], c.get('op') or c.get('arg'), str(c.get('target'))) for c in a['code']))
        if key in done:
            continue
        done.add(key)
        code, resolve = graph(a)
        fn = COMPILER + '::' + a['method']
        # R11.5
        for c in code:
            if c['kind'] == 'op' and c.get('target') is not None and c['target'][0] == 'pos':
                n_tg += 1
                r = resolve(c['target'])
                if r != 'UNRESOLVED':
                    rep.good(m['R11.5'], fn, tr + ' / target of ' + c['op'], 'resolves to the start of an emitted instruction or the end of the construct', 'src/compiler.rs')
                if r == 'UNRESOLVED':
                    rep.bad(m['R11.5'], fn, tr + ' / target of ' + c['op'], 'a jump targets a position that is not the start of an emitted instruction', 'src/compiler.rs')
        if a['method'] != 'compile_expression':
            continue
        blobs = {c['arg'].split('/')[-1] if c.get('arg') else None: i for i, c in enumerate(code) if c['kind'] == 'blob'}
        if tr.startswith('Expr::If'):
            n_if += 1
            ci = blobs.get('If.condition')
            ki = blobs.get('If.consequence')
            ai = next((i for n, i in blobs.items() if n and n.startswith('If.alternative')), None) if any(
                (c.get('arg') or '').find('If.alternative') >= 0 for c in code if c['kind'] == 'blob') else None
            if ai is None:
                ai = next((i for i, c in enumerate(code) if c['kind'] == 'blob' and 'If.alternative' in (c.get('arg') or '')), None)
            problems = []
            if ci is None or ki is None:
                problems.append('condition/consequence are not compiled by this path')
            else:
                jif = ci + 1 if ci + 1 < len(code) else None
                if jif is None or code[jif]['kind'] != 'op' or opt.get(code[jif]['op'], {}).get('class') != 'cond-jump':
                    problems.append('the condition is not immediately followed by a conditional jump')
                else:
                    tpath, tend = walk(code, resolve, opt, jif + 1)
                    fpath, fend = walk(code, resolve, opt, resolve(code[jif]['target']))
                    tb = [i for i in tpath if code[i]['kind'] == 'blob']
                    fb = [i for i in fpath if code[i]['kind'] == 'blob']
                    if tb != [ki]:
                        problems.append('the true edge does not run exactly the consequence')
                    if ai is not None:
                        if fb != [ai]:
                            problems.append('the false edge does not run exactly the alternative')
                    else:
                        if fb:
                            problems.append('the false edge runs a compiled block although there is no alternative')
                        pushes = [i for i in fpath if code[i]['kind'] == 'op' and code[i]['op'] == 'Null']
                        if len(pushes) != 1:
                            problems.append('without alternative the false edge must push exactly one null (found %d)' % len(pushes))
                    if tend not in ('END', 'DEAD') or fend not in ('END', 'DEAD'):
                        problems.append('a branch does not reach the end of the if-expression (%s/%s)' % (tend, fend))
                    if set(tpath) & set(i for i in fpath if code[i]['kind'] == 'blob'):
                        problems.append('true and false edges share a compiled block')
            rep.ob(not problems, m['R11.1'], fn, 'cfg ' + tr, '; '.join(problems) or 'true edge: consequence; false edge: alternative/null; both reach the end', 'src/compiler.rs')
        elif tr.startswith('Expr::While'):
            n_wh += 1
            ci = blobs.get('While.condition')
            bi = blobs.get('While.body')
            problems = []
            if ci is None or bi is None:
                problems.append('condition/body are not compiled by this path')
            else:
                jif = ci + 1
                if jif >= len(code) or code[jif]['kind'] != 'op' or opt.get(code[jif]['op'], {}).get('class') != 'cond-jump':
                    problems.append('the condition is not immediately followed by a conditional jump')
                else:
                    backs = [i for i, c in enumerate(code) if c['kind'] == 'op' and opt.get(c['op'], {}).get('class') == 'jump' and i > bi
                             and isinstance(resolve(c['target']), int) and resolve(c['target']) <= ci]
                    if len(backs) != 1:
                        problems.append('expected exactly one back jump after the body (found %d)' % len(backs))
                    else:
                        back = backs[0]
                        T = resolve(code[back]['target'])
                        if T != ci:
                            problems.append('the back edge does not return to the start of the condition (re-executes the seed or skips the condition)')
                        seed = [i for i in range(0, ci) if code[i]['kind'] == 'op' and opt.get(code[i]['op'], {}).get('pushes') == 1]
                        if len(seed) != 1 or ci != 1:
                            problems.append('exactly one seed value must precede the condition')
                        ex = resolve(code[jif]['target'])
                        if not (ex == 'END' or (isinstance(ex, int) and ex > back)):
                            problems.append('the exit edge does not go past the back jump')
                        lpath, lend = walk(code, resolve, opt, jif + 1, stop_at={ci})
                        if bi not in lpath or lend != ci:
                            problems.append('the loop path does not run the body and return to the condition')
                        if [i for i in lpath if code[i]['kind'] == 'blob'] != [bi]:
                            problems.append('the loop path compiles something besides the body')
                        for bl in (code[ci], code[bi]):
                            for bt in bl.get('break_targets', []):
                                if resolve(bt) != ex:
                                    problems.append('a `stop` edge does not go to the loop exit')
                            if len(bl.get('break_targets', [])) != len(bl.get('breaks', [])):
                                problems.append('a `stop` edge is never patched')
                            for ct in bl.get('continues', []):
                                if resolve(ct) != T:
                                    problems.append('a `volgende` edge does not go to the back-edge target')
            rep.ob(not problems, m['R11.2'], fn, 'cfg ' + tr, '; '.join(sorted(set(problems))) or 'seed; condition; exit past back jump; body; back to condition; stop->exit; volgende->condition', 'src/compiler.rs')
        elif tr.startswith('Expr::Function'):
            n_fn += 1
            bi = next((i for i, c in enumerate(code) if c['kind'] == 'blob' and 'Function.body' in (c.get('arg') or '')), None)
            problems = []
            if bi is None:
                problems.append('the body is not compiled by this path')
            else:
                skip = [i for i in range(0, bi) if code[i]['kind'] == 'op' and opt.get(code[i]['op'], {}).get('class') == 'jump']
                if len(skip) != 1:
                    problems.append('expected one skip jump before the body')
                else:
                    t = resolve(code[skip[0]]['target'])
                    nxt = [i for i in range(bi + 1, len(code)) if code[i]['frame'] == code[skip[0]]['frame']]
                    first_outer = nxt[0] if nxt else 'END'
                    if t != first_outer:
                        problems.append('the skip jump does not land on the first instruction after the body')
                    inner = [i for i in range(bi, len(code)) if code[i]['frame'] != code[skip[0]]['frame']]
                    if inner:
                        lastin = inner[-1]
                        c = code[lastin]
                        dead_end = (c['kind'] == 'blob' and not c['reach']) or (c['kind'] == 'op' and opt.get(c['op'], {}).get('class') == 'return')
                        if not dead_end:
                            problems.append('the body can run into the code after it')
            rep.ob(not problems, m['R11.3'], fn, 'cfg ' + tr, '; '.join(problems) or 'skip jump lands after the body; body ends in a return', 'src/compiler.rs')
    rep.count(pfx + 'if_paths', n_if)
    rep.count(pfx + 'while_paths', n_wh)
    rep.count(pfx + 'function_paths', n_fn)
    rep.count(pfx + 'jump_targets', n_tg)
    for a in R['arms']:
        if a['trace'].startswith('Expr::While') and a['reach']:
            rep.sample({'arm': a['trace'], 'stream': [c.get('op') or ('<%s>' % (c.get('arg') or '').split('/')[-1]) for c in a['code']]})
            break


def check_stmt_expr_pop(R, rep, rule):
    seen = set()
    n = 0
    for a in R['arms']:
        if a['method'] != 'compile_statement' or not a['trace'].startswith('Stmt::Expr') or not a['reach']:
            continue
        key = (a['trace'], a['last'])
        if key in seen:
            continue
        seen.add(key)
        n += 1
        rep.ob(a['last'] == 'Pop', rule, COMPILER + '::compile_statement', 'expression statement ' + a['trace'],
               'the code of an expression statement must end with OpCode::Pop (last emitted: %s): otherwise a block, if-branch, loop body or function '
               'ending in this statement yields null instead of the statement\'s value' % a['last'], 'src/compiler.rs')
    rep.count('stmt_expr_paths', n)
