"""Extraction of the interpreter's small total maps (EMX, DESIGN §4.4) and the lexer table (E2).

All maps are *extracted* from the facts of the current tree; nothing here is a frozen copy."""
import re
from mirlib import *
from synlib import *

TOKEN = 'lexer::Token'
OPERATOR = 'ast::Operator'
OPCODE = 'compiler::OpCode'
PREC = 'parser::Precedence'
SCOPE = 'symbols::Scope'
BUILTIN = 'builtins::Builtin'
TYPE = 'object::Type'


def _memo(ctx, key, fn):
    cache = ctx.__dict__.setdefault('_tables', {})
    if key not in cache:
        cache[key] = fn()
    return cache[key]


# ----------------------------------------------------------------------------------------
# lexer: character(s) -> token, from the syntax tree of `impl Iterator for Tokenizer { fn next }`
# ----------------------------------------------------------------------------------------
def _token_name(e):
    p = path_of(e)
    if p and (len(p) == 1 or p[-2] in ('Token', 'Self')):
        return p[-1]
    return None


def _peek_test(cond):
    """`self.peek() == Some('x')` -> 'x'"""
    if cond.get('k') == 'binary' and cond['op'] == '==':
        for a, b in ((cond['l'], cond['r']), (cond['r'], cond['l'])):
            if a.get('k') == 'mcall' and a['method'] == 'peek' and path_of(a['recv']) == ['self'] \
                    and b.get('k') == 'call' and path_of(b['func']) == ['Some'] and len(b['args']) == 1 \
                    and b['args'][0].get('k') == 'lit' and b['args'][0].get('lit') == 'char':
                return b['args'][0]['value']
    return None


def _is_restart(e):
    """`return self.next()` (skip: no token for this input)"""
    if e.get('k') == 'return' and e.get('expr'):
        x = e['expr']
        return x.get('k') == 'mcall' and x['method'] == 'next' and path_of(x['recv']) == ['self']
    return False


def _arm_outcomes(body, prefix):
    """list of (lexeme, token|'<skip>'|'<complex>', longer_tested_first)"""
    k = body.get('k')
    name = _token_name(body) if k == 'path' else None
    if name:
        return [(prefix, name, None)]
    if k == 'call' and _token_name(body['func']):
        return [(prefix, _token_name(body['func']) + '(..)', None)]
    if k == 'blockexpr':
        return _arm_outcomes(body['block'], prefix)
    if k == 'block':
        stmts = body['stmts']
        if not stmts:
            return [(prefix, '<complex>', None)]
        out = []
        for st in stmts[:-1]:
            if st['k'] == 's_expr' and st['expr'].get('k') == 'if':
                out += _arm_outcomes(st['expr'], prefix)
        last = stmts[-1]
        if last['k'] == 's_expr':
            out += _arm_outcomes(last['expr'], prefix)
        else:
            out.append((prefix, '<complex>', None))
        return out
    if k == 'if':
        c2 = _peek_test(body['cond'])
        if c2 is not None:
            out = []
            for (lx, tok, _) in _arm_outcomes(body['then'], prefix + c2):
                out.append((lx, tok, True))
            if body.get('else'):
                out += _arm_outcomes(body['else'], prefix)
            return out
        return [(prefix, '<complex>', None)]
    if _is_restart(body):
        return [(prefix, '<skip>', None)]
    return [(prefix, '<complex>', None)]


def lexer_table_syn(ctx):
    def build():
        S = ctx.syn()
        nxt = S.method('src/lexer.rs', 'Tokenizer', 'next', trait='Iterator')
        matches = [n for n in find_all(nxt['body'], lambda n: n.get('k') == 'match')]
        main = None
        for m in matches:
            e = m['expr']
            # match self.bump()? { ... }
            inner = e['expr'] if e.get('k') == 'try' else e
            if inner.get('k') == 'mcall' and inner['method'] == 'bump':
                main = m
                break
        if main is None:
            raise CheckerError('lexer: the `match self.bump()?` of Tokenizer::next was not found')
        table = {}      # lexeme -> token
        arms = []       # structured arms in source order
        for arm in main['arms']:
            pat = arm['pat']
            guard = arm.get('guard')
            info = {'line': arm['line'], 'pat': render_pat(pat), 'guard': render(guard) if guard else None}
            if pat['k'] == 'p_lit' and pat['lit'].get('lit') == 'char':
                ch = pat['lit']['value']
                if guard is not None:
                    c2 = _peek_test(guard)
                    if c2 is None:
                        info['kind'] = 'char-guarded-unknown'
                        info['outcomes'] = [(ch, '<complex>', None)]
                    else:
                        info['kind'] = 'char'
                        info['outcomes'] = [(lx, tok, True) for (lx, tok, _) in _arm_outcomes(arm['body'], ch + c2)]
                else:
                    info['kind'] = 'char'
                    info['outcomes'] = _arm_outcomes(arm['body'], ch)
                info['char'] = ch
            elif pat['k'] == 'p_range':
                info['kind'] = 'range'
                info['range'] = (pat['start'].get('value'), pat['end'].get('value'))
                info['outcomes'] = _arm_outcomes(arm['body'], '')
            elif pat['k'] == 'p_ident' and guard is not None:
                info['kind'] = 'class'
                info['class_guard'] = guard
                info['outcomes'] = _arm_outcomes(arm['body'], '')
            elif pat['k'] == 'p_wild':
                info['kind'] = 'default'
                info['outcomes'] = _arm_outcomes(arm['body'], '')
            else:
                info['kind'] = 'unknown'
                info['outcomes'] = []
            info['body'] = arm['body']
            arms.append(info)
            if info['kind'] == 'char':
                for lx, tok, _ in info['outcomes']:
                    if tok not in ('<skip>', '<complex>') and lx not in table:
                        table[lx] = tok
        # trailing `match token { A | B => self.bump(), _ => None }`
        bump_set = None
        for m in matches:
            if m is main:
                continue
            if path_of(m['expr']) == ['token']:
                for arm in m['arms']:
                    b = arm['body']
                    if b.get('k') == 'mcall' and b['method'] == 'bump':
                        pats = arm['pat']['cases'] if arm['pat']['k'] == 'p_or' else [arm['pat']]
                        bump_set = set()
                        for p in pats:
                            if p['k'] == 'p_path':
                                bump_set.add(p['path'][-1])
                            elif p['k'] == 'p_ident':
                                bump_set.add(p['name'])
        return {'table': table, 'arms': arms, 'extra_bump': bump_set, 'fn': nxt}
    return _memo(ctx, 'lexer_table_syn', build)


LEXNEXT = "<lexer::Tokenizer<'a> as core::iter::traits::iterator::Iterator>::next"
TOK = "lexer::Tokenizer::<'a>::"
STD_CHAR_PRED = {'is_ascii': lambda c: ord(c) < 128, 'is_ascii_uppercase': lambda c: 'A' <= c <= 'Z', 'is_ascii_lowercase': lambda c: 'a' <= c <= 'z',
                 'is_ascii_hexdigit': lambda c: c in '0123456789abcdefABCDEF', 'is_control': lambda c: ord(c) < 32 or 127 <= ord(c) < 160,
                 'is_alphabetic': str.isalpha, 'is_alphanumeric': str.isalnum, 'is_ascii_digit': lambda c: c in '0123456789',
                 'is_numeric': str.isnumeric, 'is_ascii_alphabetic': lambda c: c.isascii() and c.isalpha(),
                 'is_ascii_alphanumeric': lambda c: c.isascii() and c.isalnum(), 'is_whitespace': str.isspace,
                 'is_ascii_whitespace': lambda c: c in ' \t\n\x0c\r', 'is_ascii_punctuation': lambda c: c.isascii() and not c.isalnum() and not c.isspace() and c.isprintable()}


def eval_pure(F, name, argvals, depth=0):
    """value of a small local function on constant arguments, by constant propagation through its MIR (no forks allowed)"""
    g = F.fns.get(name)
    if g is None or depth > 3 or len(g.blocks) > 80 or not all(isinstance(a, tuple) and a[0] in ('int', 'enum') for a in argvals):
        return None
    env = {}
    for i, a in enumerate(argvals):
        if g.local_ty(i + 1).startswith('&'):
            env['_%d' % (i + 1)] = ('ref', '$arg%d' % i)      # `&self` / `&T` parameter: the constant is what it points to
            env['$arg%d' % i] = a
        else:
            env['_%d' % (i + 1)] = a
    ps = AbsInt(F, g, env, max_paths=8, decide_call=lambda n, a, t_: char_pred(n, a, t_) or eval_pure(F, n, a, depth + 1)).run()
    rets = [p.env.get('_0') for p in ps if p.exit == 'return']
    if len(ps) == 1 and len(rets) == 1 and rets[0] and rets[0][0] in ('int', 'enum'):
        return rets[0]
    return None


def char_pred(name, argvals, t=None):
    if t is not None and t.get('argvals_deref'):
        argvals = t['argvals_deref']
    if name.startswith('core::char::methods::<impl char>::') and argvals:
        a = argvals[0]
        while isinstance(a, tuple) and a[0] in ('cast',):
            a = a[1]
        fn_ = STD_CHAR_PRED.get(name.split('::')[-1])
        if fn_ and isinstance(a, tuple) and a[0] == 'int':
            try:
                return ('int', int(bool(fn_(chr(a[1])))), 'bool')
            except (ValueError, OverflowError):
                return None
    return None


UNKNOWN_CHAR = object()


class LexModel:
    """the Tokenizer's view of an input whose first characters are known constants: `chars` (a list of characters; a final
    None = end of input right there, otherwise what follows is unknown).  Used as the call-deciding callback of AbsInt when
    the MIR of Tokenizer::next is constant-propagated: bump / peek / is_eof, the rest-of-input slice `input[offset()..]`
    and starts_with on it.  After a skip_while (unknown number of characters) the input is treated as ended."""

    def __init__(self, F, chars):
        self.F = F
        self.known = [c for c in chars if c is not None]
        self.ended = bool(chars) and chars[-1] is None
        self.pos = 0
        self.bumps = 0
        self.closures = []

    @staticmethod
    def some(c):
        return ('agg', 'core::option::Option', 'Some', (('int', ord(c), 'char'),))

    NONE = ('agg', 'core::option::Option', 'None', ())

    def at(self, k):
        """'c' | None (end) | UNKNOWN_CHAR at absolute position k"""
        if self.pos is None:
            return None
        if k < len(self.known):
            return self.known[k]
        return None if self.ended else UNKNOWN_CHAR

    def decide(self, name, argvals, t_):
        T = TOK
        if name == T + 'bump':
            self.bumps += 1
            c = self.at(self.pos) if self.pos is not None else None
            if self.pos is not None:
                self.pos += 1
            if c is UNKNOWN_CHAR:
                return None
            return self.some(c) if c is not None else self.NONE
        if name == T + 'peek':
            c = self.at(self.pos) if self.pos is not None else None
            if c is UNKNOWN_CHAR:
                return None
            return self.some(c) if c is not None else self.NONE
        if name == T + 'is_eof':
            c = self.at(self.pos) if self.pos is not None else None
            if c is UNKNOWN_CHAR:
                return None
            return ('int', int(c is None), 'bool')
        if name == T + 'skip_while':
            for a in argvals:
                if isinstance(a, tuple) and a[0] == 'closure':
                    self.closures.append(a[1])
            # run the scan over the characters that are known: a predicate that answers the same whatever the escape flag is
            # consumes a known character or stops at it; from the first unknown character on the input is treated as ended
            clo = next((a[1] for a in argvals if isinstance(a, tuple) and a[0] == 'closure'), None)
            if clo is not None and self.pos is not None and getattr(self, 'simulate_scans', True):
                from rules import c08 as _c08
                while self.pos is not None:
                    c = self.at(self.pos)
                    if c is None:
                        break
                    if c is UNKNOWN_CHAR:
                        self.pos = None
                        break
                    tb = _c08.closure_table(self.F, clo, [c]) or {}
                    r0, r1 = (tb.get((c, 0)) or (None,))[0], (tb.get((c, 1)) or (None,))[0]
                    if r0 is None or r0 != r1:
                        self.pos = None
                        break
                    if r0 == 1:
                        self.pos += 1
                        self.bumps += 1
                        continue
                    break
                return None
            self.pos = None          # unknown number of characters consumed: treat the input as ended
            return None
        if name.endswith('::index') and 'Index<' in name and 'str' in name and len(argvals) == 2 and 'RangeFrom' in str(argvals[1])[:80] and 'offset' in str(argvals[1]):
            return ('rest', self.pos)
        if name.endswith('::starts_with') and len(argvals) == 2:
            ad = (t_ or {}).get('argvals_deref') or argvals
            r = ad[0]
            for _ in range(3):
                if isinstance(r, tuple) and r and r[0] in ('cast', 'deref'):
                    r = r[1]
            if isinstance(r, tuple) and r and r[0] == 'rest':
                pat = ad[1]
                p0 = r[1]
                if p0 is None:
                    return ('int', 0, 'bool')
                if pat[0] == 'str':
                    for i, ch in enumerate(pat[1]):
                        have = self.known[p0 + i] if p0 + i < len(self.known) else (None if self.ended else UNKNOWN_CHAR)
                        if have is UNKNOWN_CHAR:
                            return None
                        if have != ch:
                            return ('int', 0, 'bool')
                    return ('int', 1, 'bool')
                if pat[0] == 'fn':
                    have = self.known[p0] if p0 < len(self.known) else (None if self.ended else UNKNOWN_CHAR)
                    if have is UNKNOWN_CHAR:
                        return None
                    if have is None:
                        return ('int', 0, 'bool')
                    return eval_pure(self.F, pat[1], [('int', ord(have), 'char')])
            return None
        r_ = char_pred(name, argvals, t_)
        if r_ is not None:
            return r_
        if name in self.F.fns and name != LEXNEXT and not name.startswith(T):
            return eval_pure(self.F, name, argvals)
        return None


def lex_run(F, chars, max_paths=64):
    """(paths, model) of Tokenizer::next on an input starting with `chars`"""
    m = LexModel(F, chars)
    fn = F.fn(LEXNEXT)
    ai = AbsInt(F, fn, {}, decide_call=m.decide, max_paths=max_paths)
    ps = ai.run()
    return fn, ps, m, ai.truncated


def lexer_outcomes(ctx):
    """what Tokenizer::next does on an input that starts with c1 followed by c2 (or by nothing), for a grid of characters:
    {(c1, c2): (token | '<skip>' | '<eof>' | '<?>', number of bump() calls, callees)} — the MIR of next() with the first two
    characters held constant (constant propagation; helpers the lexer may have been split into are spliced in or evaluated)"""
    def build():
        F = ctx.facts()
        fn = F.fn(LEXNEXT)
        c1s = [chr(i) for i in range(33, 127)] + [' ', '\t', '\n', '\r', '\x0b', '\x0c', '\x85', '\u200e', '\u200f', '\u2028', '\u2029', '\xa0', '\u00e9', '\u20ac']
        c2s = [None, '=', '&', '|', '/', '!', '<', '>', 'a', '0', ' ', '"', '.', '*', '-', '+']
        out = {}

        for c1 in c1s:
            for c2 in c2s:
                _, ps, model, trunc = lex_run(F, [c1, c2])
                res = set()
                for p in ps:
                    nb = sum(1 for c in p.calls if c[1] == TOK + 'bump')
                    callees = tuple(c[1].split('::')[-1] for c in p.calls if c[1].startswith(TOK) or c[1] == LEXNEXT or c[1].startswith('<lexer::Token'))
                    r = p.env.get('_0')
                    tokn = '<?>'
                    if p.exit == 'return' and r:
                        if r[0] == 'call' and r[1] == LEXNEXT:
                            tokn = '<skip>'
                        elif r[0] in ('agg',) and r[2] == 'Some' and r[3]:
                            tv = r[3][0]
                            if tv[0] in ('enum', 'agg'):
                                tokn = tv[2]
                            elif tv[0] == 'call':
                                tokn = '<call %s>' % tv[1].split('::')[-1]
                        elif (r[0] == 'agg' and r[2] == 'None') or (r[0] == 'enum' and r[2] == 'None') or (r[0] == 'call' and 'from_residual' in r[1]):
                            tokn = '<eof>'
                    res.add((tokn, nb, callees))
                if trunc:
                    res.add(('<?>', -1, ()))
                out[(c1, c2)] = sorted(res)
        return out
    return _memo(ctx, 'lexer_outcomes', build)


def lexer_table(ctx):
    """lexeme -> token for the operator / punctuation lexemes, read from the constant-propagated MIR of Tokenizer::next
    (lexer_outcomes); `arms` are the syntactic arms of the main match when the lexer still has that shape (else None)"""
    def build():
        o = lexer_outcomes(ctx)
        table = {}
        unit = set()
        F = ctx.facts()
        for v in F.adt(TOKEN)['variants']:
            if not v['fields']:
                unit.add(v['name'])
        c1s = sorted({k[0] for k in o})
        c2s = sorted({k[1] for k in o if k[1] is not None})
        for c1 in c1s:
            alone = o[(c1, None)]
            t1 = alone[0][0] if len(alone) == 1 else None
            if t1 in ('<skip>', '<eof>'):
                continue        # a character the lexer drops (whitespace): it starts no lexeme
            if t1 in unit and t1 != 'Illegal' and alone[0][1] == 1:
                table[c1] = t1
            for c2 in c2s:
                r = o[(c1, c2)]
                if len(r) == 1 and r[0][0] in unit and r[0][0] not in ('Illegal',) and r[0][1] == 2 and r[0][0] != t1:
                    table[c1 + c2] = r[0][0]
        try:
            syn = lexer_table_syn(ctx)
            arms, nxt, extra = syn['arms'], syn['fn'], syn['extra_bump']
        except CheckerError:
            arms, extra = None, None
            nxt = ctx.syn().method('src/lexer.rs', 'Tokenizer', 'next', trait='Iterator')
        return {'table': table, 'arms': arms, 'extra_bump': extra, 'fn': nxt, 'outcomes': o, 'unit_tokens': unit}
    return _memo(ctx, 'lexer_table', build)


def iter_chain(e):
    """method chain of an expression: base, [(method, args), ...]"""
    chain = []
    while isinstance(e, dict) and e.get('k') == 'mcall':
        chain.append((e['method'], e['args']))
        e = e['recv']
    chain.reverse()
    return e, chain


def _keyword_table_from_const(S, f):
    """the keyword table kept as data: a const array of (word, token) pairs searched for the pair whose word equals the text
    (`TABLE.iter().find(|(w, _)| *w == value).map_or(Identifier(value), |&(_, t)| t)`), possibly behind a test on the length of
    the text that returns the default early - a word whose length the test excludes is not a keyword any more"""
    params = [i['pat']['name'] for i in f['inputs'] if not i.get('self') and i['pat'].get('k') == 'p_ident']
    if len(params) != 1:
        return None
    val = params[0]
    finds = find_all(f['body'], lambda n: n.get('k') == 'mcall' and n['method'] == 'find')
    if len(finds) != 1:
        return None
    base, ch = iter_chain(finds[0])
    if [m for m, _ in ch][:2] != ['iter', 'find'] or base.get('k') != 'path' or len(base['path']) != 1:
        return None
    cname = base['path'][0]
    const = next((it for it in S.all_items('src/lexer.rs') if it['k'] == 'const' and it['name'] == cname), None)
    if const is None or const['expr'].get('k') != 'array':
        return None
    clo = finds[0]['args'][0] if finds[0]['args'] else None
    if not clo or clo.get('k') != 'closure':
        return None
    body = render(clo['body']).replace(' ', '').replace('(', '').replace(')', '')
    cpar = [p_ for p_ in find_all(clo, lambda n: n.get('k') == 'p_ident')]
    wname = cpar[0]['name'] if cpar else None
    if wname is None or body not in ('*%s==%s' % (wname, val), '%s==*%s' % (val, wname), '%s==%s' % (wname, val), '%s==%s' % (val, wname)):
        return None
    kw = {}
    for e in const['expr']['elems']:
        if e.get('k') != 'tuple' or len(e['elems']) != 2 or e['elems'][0].get('k') != 'lit' or e['elems'][0].get('lit') != 'str':
            return None
        w = e['elems'][0]['value']
        if w in kw:
            continue            # find() answers with the first pair
        kw[w] = _token_name(e['elems'][1]) or render(e['elems'][1])
    # what becomes of the match: map_or(default, |&(_, t)| t)
    mo = find_all(f['body'], lambda n: n.get('k') == 'mcall' and n['method'] in ('map_or', 'map_or_else') and find_all(n['recv'], lambda x: x is finds[0]))
    if len(mo) != 1 or len(mo[0]['args']) != 2:
        return None
    default = render(mo[0]['args'][0])
    # early exits on the length of the text
    for st in f['body']['stmts']:
        e = st.get('expr') if st['k'] == 's_expr' else None
        if e is None or e is mo[0] or find_all(e, lambda x: x is mo[0]):
            continue
        ok = False
        if e.get('k') == 'if' and not e.get('else'):
            c = e['cond']
            neg = False
            while c.get('k') == 'unary' and c['op'] == '!':
                c, neg = c['expr'], not neg
            while c.get('k') == 'paren':
                c = c['expr']
            rg = c.get('recv') if c.get('k') == 'mcall' and c.get('method') == 'contains' and len(c.get('args') or []) == 1 else None
            while rg is not None and rg.get('k') == 'paren':
                rg = rg['expr']
            arg = render(c['args'][0]).replace(' ', '') if rg is not None else ''
            rets = [x for x in e['then']['stmts']]
            rexp = rets[0].get('expr') if len(rets) == 1 else None
            if rexp is not None and rexp.get('k') == 'return':
                rexp = rexp.get('expr')
            if rg is not None and rg.get('k') == 'range' and rg.get('start') and rg.get('end') and isinstance(rg['start'].get('value'), int) and isinstance(rg['end'].get('value'), int) \
                    and arg in ('&%s.len()' % val, '&(%s.len())' % val) and neg and rexp is not None and render(rexp).replace(' ', '') == default.replace(' ', ''):
                lo, hi = rg['start']['value'], rg['end']['value'] - (0 if rg.get('inclusive') else 1)
                kw = {w: t for w, t in kw.items() if lo <= len(w.encode('utf-8')) <= hi}
                ok = True
        if not ok:
            return None
    return {'keywords': kw, 'default': default, 'line': f['line'], 'scrutinee': val}


def _keywords_by_evaluation(F, f):
    fn = next((g for g in F.all_fns if g.path.endswith('>::from') and 'lexer::Token' in g.path and 'From<&' in g.path and g.arg_count == 1), None)
    if fn is None:
        return None
    lits, seen = set(), set()

    def walk(x):
        if isinstance(x, dict):
            if x.get('k') == 'const' and isinstance(x.get('str'), str):
                lits.add(x['str'])
            ci = x.get('const_item')
            if ci and ci not in seen:
                seen.add(ci)
                walk((F.consts.get(ci) or {}).get('body'))
            for v in x.values():
                walk(v)
        elif isinstance(x, list):
            for v in x:
                walk(v)
    walk(fn.j['blocks'])
    walk(fn.j.get('promoted'))
    if not lits:
        return None

    def answer(s_):
        res = set()
        for p in AbsInt(F, fn, {'_1': ('str', s_)}).run():
            if p.exit == 'diverge':
                continue
            if p.exit != 'return':
                return None
            r = simp(p.env.get('_0'))
            r = p._closed(r) if hasattr(p, '_closed') else r
            nm = variant_name(r)
            if nm is None:
                return None
            res.add(nm)
        return next(iter(res)) if len(res) == 1 else None
    dflt = answer('\x00geen sleutelwoord')
    if dflt is None:
        return None
    kw = {}
    for s_ in sorted(lits):
        a = answer(s_)
        if a is None:
            return None
        if a != dflt:
            kw[s_] = a
    pname = next((i['pat']['name'] for i in f['inputs'] if not i.get('self') and i['pat'].get('k') == 'p_ident'), 'value')
    return {'keywords': kw, 'default': '%s(%s)' % (dflt, pname), 'line': f['line'], 'scrutinee': pname}


def keyword_table(ctx):
    def build():
        S = ctx.syn()
        f = S.method('src/lexer.rs', 'Token', 'from', trait='From')
        ms = find_all(f['body'], lambda n: n.get('k') == 'match')
        if len(ms) == 0:
            alt = _keyword_table_from_const(S, f)
            if alt is not None:
                return alt
        if len(ms) != 1:
            # neither one match nor the table idiom above (an if-chain, a table behind other tests): the conversion is evaluated for
            # every string literal it or a constant it names contains, and for a word that is none of them
            alt = _keywords_by_evaluation(ctx.facts(), f)
            if alt is not None:
                return alt
            raise CheckerError('keyword table: expected one match in From<&str> for Token')
        kw = {}
        default = None
        for arm in ms[0]['arms']:
            pats = arm['pat']['cases'] if arm['pat']['k'] == 'p_or' else [arm['pat']]
            for p in pats:
                if p['k'] == 'p_lit' and p['lit'].get('lit') == 'str':
                    kw[p['lit']['value']] = _token_name(arm['body']) or render(arm['body'])
                elif p['k'] == 'p_wild' or p['k'] == 'p_ident':
                    default = render(arm['body'])
        return {'keywords': kw, 'default': default, 'line': f['line'], 'scrutinee': render(ms[0]['expr'])}
    return _memo(ctx, 'keyword_table', build)


# ----------------------------------------------------------------------------------------
# enum maps from MIR
# ----------------------------------------------------------------------------------------
def enum_map(F, fn, param_local, enum_path, by_ref, want='ret', callee_filter=None):
    """evaluate fn for every variant of the enum bound to parameter `param_local`.
    want='ret' -> returned value; want='call' -> the calls made (filtered).  Result per variant:
    ('val', value) | ('diverge', last callee) | ('multi', [...])"""
    out = {}
    for name, _ in F.enum_variants(enum_path):
        if by_ref:
            env = {'_%d' % param_local: ('ref', '$p'), '$p': ('enum', enum_path, name)}
        else:
            env = {'_%d' % param_local: ('enum', enum_path, name)}
        ai = AbsInt(F, fn, env)
        res = set()
        for p in ai.run():
            if p.exit == 'return':
                if want == 'ret':
                    res.add(('val', p.env.get('_0')))
                else:
                    calls = tuple(c[1] for c in p.calls if callee_filter is None or callee_filter(c[1]))
                    res.add(('calls', calls))
            elif p.exit == 'diverge':
                res.add(('diverge', p.calls[-1][1] if p.calls else None))
            else:
                res.add((p.exit, None))
        out[name] = res
    return out


def one(resset):
    if len(resset) == 1:
        return next(iter(resset))
    return ('multi', sorted(map(repr, resset)))


def variant_name(v):
    if isinstance(v, tuple) and v and v[0] == 'enum':
        return v[2]
    if isinstance(v, tuple) and v and v[0] == 'agg' and v[2]:
        return v[2]
    return None


def token_precedence(ctx):
    def build():
        F = ctx.facts()
        fn = F.fn("parser::<impl lexer::Token<'_>>::precedence")
        m = enum_map(F, fn, 1, TOKEN, True)
        out = {}
        for tok, rs in m.items():
            r = one(rs)
            out[tok] = variant_name(r[1]) if r[0] == 'val' else None
        order = [n for n, _ in sorted(F.enum_variants(PREC), key=lambda x: x[1])]
        return {'map': out, 'order': order, 'fn': fn}
    return _memo(ctx, 'token_precedence', build)


def operator_from_token(ctx):
    def build():
        F = ctx.facts()
        fn = F.fn("<ast::Operator as core::convert::From<lexer::Token<'_>>>::from")
        m = enum_map(F, fn, 1, TOKEN, False)
        out = {}
        for tok, rs in m.items():
            r = one(rs)
            out[tok] = variant_name(r[1]) if r[0] == 'val' else '<%s>' % r[0]
        return {'map': out, 'fn': fn}
    return _memo(ctx, 'operator_from_token', build)


def compile_operator_map(ctx):
    """Operator -> OpCode emitted by Compiler::compile_operator"""
    def build():
        F = ctx.facts()
        fn = F.fn('compiler::Compiler::compile_operator')
        out = {}
        for name, _ in F.enum_variants(OPERATOR):
            env = {'_2': ('ref', '$p'), '$p': ('enum', OPERATOR, name)}
            res = set()
            for p in AbsInt(F, fn, env).run():
                if p.exit == 'return':
                    em = [c for c in p.calls if c[1] == 'compiler::Compiler::emit_opcode']
                    res.add(tuple(variant_name(c[2][1]) for c in em))
                else:
                    res.add(('<%s>' % p.exit,))
            r = one(res)
            out[name] = r[0] if len(r) == 1 else r
        return {'map': out, 'fn': fn}
    return _memo(ctx, 'compile_operator_map', build)


def fused_fn(F):
    """the compiler's routine that selects a fused instruction: by its pinned name, or (after it was renamed and its signature
    changed, so that it is no plain rename) the one method of the compiler with an Operator parameter that looks a name up and
    emits an instruction"""
    name = 'compiler::Compiler::compile_const_var_infix_expression'
    if name in F.fns:
        return F.fns[name]
    cands = []
    for f in list(F.all_fns) + list((getattr(F, 'transparent_fns', None) or {}).values()):
        if not f.path.startswith('compiler::Compiler::') or '{closure' in f.path:
            continue
        if not any('ast::Operator' in f.local_ty(i) for i in range(1, f.arg_count + 1)):
            continue
        names = {callee_name(t) for _, t in f.calls()}
        if 'symbols::SymbolTable::resolve' in names and 'compiler::Compiler::emit_opcode' in names:
            cands.append(f)
    if len(cands) != 1:
        raise CheckerError('anchor function %s not found in the facts (and %d methods of the compiler have its role)' % (name, len(cands)))
    return cands[0]


def fused_map(ctx):
    """(Operator, Scope) -> fused OpCode or '<fallback>' from compile_const_var_infix_expression"""
    def build():
        F = ctx.facts()
        fn = fused_fn(F)

        def decide(name, argv, t):
            return None
        out = {}
        conditional = {}
        for opname, _ in F.enum_variants(OPERATOR):
            for scname, _ in F.enum_variants(SCOPE):
                # parameters: _1 self, _2 varname, _3 const_value, _4 operator (&Operator)
                opl = None
                for i in range(1, fn.arg_count + 1):
                    if 'ast::Operator' in fn.local_ty(i):
                        opl = i
                if opl is None:
                    raise CheckerError('compile_const_var_infix_expression: no Operator parameter')
                env = {'_%d' % opl: ('ref', '$op'), '$op': ('enum', OPERATOR, opname)}

                def decide_call(name, argv, t, sc=scname):
                    if name == 'symbols::SymbolTable::resolve':
                        return ('agg', 'core::option::Option', 'Some',
                                (('agg', 'symbols::Symbol', 'Symbol', (('enum', SCOPE, sc), ('symindex',))),))
                    return None
                res = set()
                for p in AbsInt(F, fn, env, decide_call=decide_call).run():
                    em = tuple(variant_name(c[2][1]) for c in p.calls if c[1] == 'compiler::Compiler::emit_opcode')
                    if p.exit == 'return':
                        r0 = simp(p.env.get('_0'))
                        if em:
                            res.add(em)
                        elif r0 and r0[0] == 'errof' and ('::ok_or_else' in str(r0[1])[:400] or '::ok_or\'' in str(r0[1])[:400]):
                            res.add(('<fallback>',))     # `table(op).ok_or_else(|| error)?`: no fused form for this operator / scope
                        elif r0 and r0[0] == 'errof':
                            continue    # an error propagated from a callee (range check, pool full): not a selection outcome
                        else:
                            res.add(('<fallback>',))
                    elif p.exit == 'diverge':
                        continue        # a panic (an assertion that failed) selects nothing: the panic census answers for it
                    else:
                        res.add(('<%s>' % p.exit,))
                ops_only = {x for x in res if x != ('<fallback>',) and not (len(x) == 1 and str(x[0]).startswith('<'))}
                if len(ops_only) == 1 and ('<fallback>',) in res:
                    # the fused form is used under an additional (value-dependent) condition, otherwise the generic path
                    r = next(iter(ops_only))
                    conditional[(opname, scname)] = True
                else:
                    r = one(res)
                out[(opname, scname)] = r[0] if len(r) == 1 and isinstance(r[0], str) else r
        return {'map': out, 'fn': fn, 'conditional': conditional}
    return _memo(ctx, 'fused_map', build)


def _resolve_by_evaluation(F):
    fn = F.fn('builtins::resolve')
    lits = set()
    seen = set()

    def walk(x):
        if isinstance(x, dict):
            if x.get('k') == 'const' and isinstance(x.get('str'), str):
                lits.add(x['str'])
            ci = x.get('const_item')
            if ci and ci not in seen:
                seen.add(ci)
                walk((F.consts.get(ci) or {}).get('body'))
            for v in x.values():
                walk(v)
        elif isinstance(x, list):
            for v in x:
                walk(v)
    walk(fn.j['blocks'])
    walk(fn.j.get('promoted'))
    if not lits:
        raise CheckerError('builtins::resolve: no string literal decides the answer')
    other = '\x00no such builtin'

    def answer(s_):
        res = set()
        for p in AbsInt(F, fn, {'_1': ('str', s_)}).run():
            if p.exit != 'return':
                if p.exit == 'diverge':
                    continue
                res.add(('?', p.exit))
                continue
            r = simp(p.env.get('_0'))
            if isinstance(r, tuple) and r and r[0] == 'agg' and r[1] == 'core::option::Option':
                res.add(variant_name(r[3][0]) if r[2] == 'Some' and r[3] else None)
            elif isinstance(r, tuple) and r and r[0] == 'enum' and r[2] == 'None':
                res.add(None)
            else:
                res.add(('?', repr(r)[:80]))
        return next(iter(res)) if len(res) == 1 else ('?', sorted(map(repr, res)))
    if answer(other) is not None:
        raise CheckerError('builtins::resolve: a string that is none of its literals is not answered with None (%r)' % (answer(other),))
    out = {}
    for s_ in sorted(lits):
        a = answer(s_)
        if a is None:
            continue            # a literal used for something else (a message)
        out[s_] = a if isinstance(a, str) else None
    return out


def builtin_tables(ctx):
    def build():
        F = ctx.facts()
        S = ctx.syn()
        # name -> Builtin from the syntax tree of builtins::resolve (string patterns)
        f = S.func('src/builtins.rs', 'resolve')
        ms = find_all(f['body'], lambda n: n.get('k') == 'match')
        names = {}
        if len(ms) != 1:
            # not written as one match (a table searched with find(), an if-chain): the function is evaluated for every string
            # literal it or a constant it names contains, and for a string that is none of them
            names = _resolve_by_evaluation(F)
            ms = [{'arms': []}]
        for arm in ms[0]['arms']:
            pats = arm['pat']['cases'] if arm['pat']['k'] == 'p_or' else [arm['pat']]
            for p in pats:
                if p['k'] == 'p_lit' and p['lit'].get('lit') == 'str':
                    b = arm['body']
                    v = None
                    if b.get('k') == 'call' and path_of(b['func']) == ['Some'] and path_of(b['args'][0]):
                        v = path_of(b['args'][0])[-1]
                    else:
                        # `"x" => Builtin::X` (wrapped in Some(..) after the match) or any body naming exactly one variant
                        vs = {tuple(n['path']) for n in find_all(b, lambda n: n.get('k') == 'path' and len(n['path']) >= 2 and n['path'][-2] == 'Builtin')}
                        if len(vs) == 1:
                            v = next(iter(vs))[-1]
                    names[p['lit']['value']] = v
        # Builtin -> call_* from MIR of builtins::call
        fn = F.fn('builtins::call')
        m = enum_map(F, fn, 1, BUILTIN, False, want='call', callee_filter=lambda n: n.startswith('builtins::'))
        disp = {}
        for b, rs in m.items():
            r = one(rs)
            disp[b] = r[1][0] if r[0] == 'calls' and len(r[1]) == 1 else repr(r)
        return {'names': names, 'dispatch': disp, 'line': f['line']}
    return _memo(ctx, 'builtin_tables', build)


P = "parser::Parser::<'a>::"


def first_parser_call(fn, b, limit=12):
    """first call to a Parser method following block b along unique successors"""
    for _ in range(limit):
        t = fn.term(b)
        if t['k'] == 'call':
            n = callee_name(t)
            if n.startswith(P):
                return n[len(P):]
            b = t['target']
            if b is None:
                return None
            continue
        if t['k'] == 'goto':
            b = t['target']
            continue
        if t['k'] == 'return':
            return '<return>'
        return None
    return None


def pratt_tables(ctx):
    """token dispatch of parse_expr: the initial (prefix/primary) match and the continuation-loop match"""
    def build():
        F = ctx.facts()
        pe = F.fn(P + 'parse_expr')
        loops = pe.natural_loops()
        if not loops:
            raise CheckerError('parse_expr has no loop (Pratt continuation loop anchor)')
        header, body = max(loops, key=lambda x: len(x[1]))
        names = {d: n for n, d in F.enum_variants(TOKEN)}
        sw = None
        for b in sorted(body):
            t = pe.term(b)
            if t['k'] == 'switch' and len(t['targets']) >= 3:
                for st in pe.blocks[b]['stmts']:
                    if st['k'] == 'assign' and st['rv']['k'] == 'discr' and st['rv']['enum'] == TOKEN \
                            and place_fields(st['rv']['place']) == ['current_token']:
                        sw = (b, t)
        # which parser routine one turn of the continuation loop hands each token to: the loop body is constant-propagated
        # with `self.current_token` fixed to every Token variant in turn (a match, an if-chain or a predicate helper all fold)
        par = F.adt('parser::Parser')
        fidx = next(i for i, f in enumerate(par['variants'][0]['fields']) if f['name'] == 'current_token')
        disp = {}
        for v in F.adt(TOKEN)['variants']:
            val = ('enum', TOKEN, v['name']) if not v['fields'] else ('agg', TOKEN, v['name'], tuple(('unknown', 'payload') for _ in v['fields']))
            env = {'_1.*.f%d' % fidx: val}
            firsts = set()

            def decide(name, argvals, t_):
                if name in F.fns and not name.startswith(P) and not name.startswith('parser::parse'):
                    ad = (t_ or {}).get('argvals_deref') or argvals
                    return eval_pure(F, name, list(ad))
                return None
            for p in AbsInt(F, pe, env, stop_blocks={header}, decide_call=decide, max_paths=400, loop_bound=2).run(header):
                calls = [c[1][len(P):] for c in p.calls if c[1].startswith(P) and c[1][len(P):] not in ('advance',)]
                firsts.add(calls[0] if calls else None)
            called = {f for f in firsts if f}
            if len(called) == 1:
                disp[v['name']] = next(iter(called))
            elif len(called) > 1:
                disp[v['name']] = '<ambiguous %s>' % sorted(called)
        other = None
        # the same for the first token of an expression (prefix / primary dispatch): from the entry up to the loop
        first = {}
        for v in F.adt(TOKEN)['variants']:
            val = ('enum', TOKEN, v['name']) if not v['fields'] else ('agg', TOKEN, v['name'], tuple(('unknown', 'payload') for _ in v['fields']))
            env = {'_1.*.f%d' % fidx: val}
            firsts = set()

            def decide0(name, argvals, t_):
                if name in F.fns and not name.startswith(P) and not name.startswith('parser::parse'):
                    ad = (t_ or {}).get('argvals_deref') or argvals
                    return eval_pure(F, name, list(ad))
                return None
            for p in AbsInt(F, pe, env, stop_blocks={header}, decide_call=decide0, max_paths=400, loop_bound=2).run(0):
                calls = [c[1][len(P):] for c in p.calls if c[1].startswith(P) and c[1][len(P):] not in ('advance',)]
                firsts.add(calls[0] if calls else None)
            called = {f for f in firsts if f}
            if len(called) == 1:
                first[v['name']] = next(iter(called))
            elif len(called) > 1:
                first[v['name']] = '<ambiguous %s>' % sorted(called)
        of = operator_from_token(ctx)['map']
        infix_tokens = {t for t, c in disp.items() if c == 'parse_infix_expr'}
        prefix_tokens = {t for t, c in first.items() if c == 'parse_prefix_expr'}
        return {'fn': pe, 'loop': (header, body), 'dispatch': disp, 'other': other, 'switch': sw, 'first': first,
                'infix_tokens': infix_tokens, 'prefix_tokens': prefix_tokens,
                'infix_operators': {of.get(t) for t in infix_tokens}, 'prefix_operators': {of.get(t) for t in prefix_tokens}}
    return _memo(ctx, 'pratt_tables', build)


def top_compile_fns(ctx):
    """compile_ast and the non-recursive Compiler methods it reaches (the per-program driver code)"""
    def build():
        F = ctx.facts()
        g = F.call_graph()
        root = 'compiler::Compiler::compile_ast'
        F.fn(root)
        out = []
        seen = set()
        st = [root]
        while st:
            n = st.pop()
            if n in seen or not n.startswith('compiler::Compiler::') or n not in F.fns:
                continue
            seen.add(n)
            # stop at the recursive arm compilers
            if n.split('::')[-1] in ('compile_statement', 'compile_expression', 'compile_block_statement'):
                continue
            out.append(n)
            st.extend(g.get(n, ()))
        return out
    return _memo(ctx, 'top_compile_fns', build)


def bytecode_builder(ctx):
    F = ctx.facts()
    for n in top_compile_fns(ctx):
        fn = F.fn(n)
        for b, si, st in fn.stmts():
            if st['k'] == 'assign' and st['rv']['k'] == 'aggregate' and st['rv'].get('adt') == 'compiler::Bytecode':
                return fn
    raise CheckerError('anchor: no function reachable from compile_ast builds a Bytecode value')
