"""C04 — garbage is reclaimed and a finished run leaves nothing behind (static clauses)."""
from mirlib import *
from mirlib import _split_generic_args
from rules import vmx, psc, c03, tables
from rules.psc import sym, strip
from rules.shared import deref

META = {
    'title': 'Garbage is reclaimed and a finished run leaves nothing behind',
    'explanation': 'R04.1 the per-run collector is an owned local of VM::run whose Drop runs on every exit (Halt, every `?`, every return '
                   'Err, unwinding); nothing suppresses destructors. R04.2 dropping a collector releases ALL objects it still manages '
                   '(bitmap typestate of destroy/sweep). R04.3 ownership hand-over is paired: every constant the compiler\'s collector '
                   'gives up is adopted by the run\'s collector, the result is given up exactly on the Ok exit. R04.4 the sweep frees each '
                   'removed object exactly once and only unmarked ones.'
                   ' R04.5 free_recursive releases every reachable object exactly once (address-keyed first-time test before every free; arrays are entered). R04.7 untrace hands the whole result over. R04.8 objects are freed only by the sweep or by free_recursive. R04.9 no static item can hold a value. R04.10 untrace recurses into the elements only after removing the object it was given (terminates on cyclic arrays, visits shared parts once).',
    'not_decided': ['the allocation ledger itself (each object released exactly once as a count over a run)',
                    'release at every instruction-level abort point (we decide only that all exits share the one release path)'],
}
META['explanation'] += " R04.11 a collection started by a return runs after the returning function's frame was popped."
META['explanation'] += ' R04.12 every type that lives in a heap box has its arm in Object::free (the types it destroys are exactly those is_heap_allocated answers for).'
GCN = 'gc::GC::'


def run(ctx, rep):
    F = ctx.facts()
    v = vmx.vmx(ctx)
    fn = v['fn']
    rep.rule('R04.1', 'collector lifetime: a GC local of run() is dropped on every path to every return / resume')
    rep.rule('R04.2', 'release-all on drop: <GC as Drop>::drop frees every object still managed')
    rep.rule('R04.3', 'hand-over pairing: compile_ast untraces every constant; run adopts every constant; Halt untraces the result before the only Ok return')
    rep.rule('R04.4', 'sweep exactness: every object removed from the managed list is freed, nothing else is')
    rep.rule('R04.5', 'the caller can release a returned result completely: free_recursive frees every element and the object')
    check_free_recursive(ctx, rep, 'R04.5')
    rep.rule('R04.6', 'a box whose content owns memory is dropped in place before it is deallocated')
    rep.rule('R04.7', 'the result is handed over whole: untrace takes everything reachable from it out of the collector (otherwise the rest is freed under the caller)')
    c03.check_array_recursion(ctx, rep, 'R04.7', names=('untrace',))
    rep.rule('R04.8', 'released exactly once: objects are freed only by the sweep of the collector that manages them, or by free_recursive on a handed-over result')
    c03.check_who_frees(ctx, rep, 'R04.8')
    rep.rule('R04.9', 'nothing but the returned result outlives the run: no static item can hold a value (it would be released under the static, or twice by two callers)')
    c03.check_no_static_values(ctx, rep, 'R04.9')
    rep.rule('R04.11', 'a collection started by a return sees the frame of the returning function no more: the frame is popped (its slots leave the operand stack) before the collector runs, so what only the dead frame held is reclaimed by this collection')
    check_collect_after_popframe(ctx, rep, 'R04.11')
    rep.rule('R04.10', 'handing the result over terminates and visits each object once: untrace recurses into the elements only after removing the object it was given from the managed list')
    c03.check_recursion_removes(ctx, rep, 'R04.10')
    check_box_release(ctx, rep, 'R04.6')
    rep.rule('R04.12', 'every kind of value that lives in a heap box can be released: the types Object::free destroys are exactly the types is_heap_allocated answers for (a new boxed type without an arm in free is never given back)')
    check_free_covers_heap(ctx, rep, 'R04.12')
    # ---- R04.1 ---------------------------------------------------------------------------------
    news = [(b, t) for b, t in fn.calls() if callee_name(t) == GCN + 'new']
    rep.ob(len(news) == 1, 'R04.1', fn.path, 'one collector per run', 'run() creates exactly one collector (found %d)' % len(news), fn.loc())
    for b, t in news:
        dl = t['dest']['local']
        owners = {dl}
        # the collector may be built by a helper and handed to run() by value (`let mut collector = adopt_constants(..)`, spliced
        # in): its owner is the local the value is finally moved into
        for _ in range(6):
            nxt = [st['place']['local'] for bb_, si_, st in fn.stmts()
                   if st['k'] == 'assign' and not st['place']['proj'] and st['rv']['k'] == 'use' and st['rv']['op'].get('k') == 'move'
                   and st['rv']['op']['place']['local'] == dl and not st['rv']['op']['place']['proj'] and fn.local_ty(st['place']['local']) == 'gc::GC']
            if len(nxt) != 1:
                break
            dl = nxt[0]
            owners.add(dl)       # (while it is still the helper's local, the helper's own unwind path drops it)
        is_local = not t['dest']['proj'] and fn.local_ty(dl) == 'gc::GC'
        drops = {bb for bb in range(len(fn.blocks)) if fn.term(bb)['k'] == 'drop' and fn.term(bb)['place']['local'] in owners and not fn.term(bb)['place']['proj']}
        # every Return / Resume reachable from the creation passes a drop of that local
        reach = fn.reachable(t['target'], stop=drops, unwind=True)
        leaks = [bb for bb in reach if fn.term(bb)['k'] in ('return', 'resume')]
        rep.ob(is_local and drops and not leaks, 'R04.1', fn.path, 'collector dropped on every exit',
               'the collector is an owned local (%s) with %d drop points; exits reachable without passing one: %s' % (fn.local_ty(dl), len(drops), leaks[:5]), span_loc(t['span']))
        # it is not moved out / forgotten
        moved = []
        for bb, tt in fn.calls():
            for a in tt['args']:
                if a.get('k') == 'move' and a['place']['local'] == dl and not a['place']['proj']:
                    moved.append(callee_name(tt))
        rep.ob(not moved, 'R04.1', fn.path, 'collector not moved away', 'the collector value is never moved into another function: %s' % moved, span_loc(t['span']))
    rep.count('run_return_blocks', sum(1 for bb in fn.normal_blocks() if fn.term(bb)['k'] == 'return'))
    for n_ in ('core::mem::forget', 'alloc::boxed::Box::<T>::leak', 'core::mem::manually_drop::ManuallyDrop::<T>::new'):
        cs = sorted({f.path for f, b, t in F.callers_of(lambda p, n_=n_: p == n_) if f.crate == 'lib'})
        rep.ob(not cs, 'R04.1', n_, 'unused', 'no destructor suppression: %s' % cs, None)
    # ---- R04.2 ---------------------------------------------------------------------------------
    dropfn = F.fn('<gc::GC as core::ops::drop::Drop>::drop')
    callees = [callee_name(t) for b, t in dropfn.calls()]
    rep.ob(callees == [GCN + 'destroy'] or GCN + 'sweep' in callees or any('drain' in c for c in callees), 'R04.2', dropfn.path, 'drop releases', 'Drop calls the release routine: %s' % callees, dropfn.loc())
    dest = F.fn(GCN + 'destroy')
    probs, _ = c03.bitmap_state_check(F, dest, rep, 'R04.2', {GCN + 'sweep'})
    direct = any('drain' in callee_name(t) or callee_name(t) == 'object::Object::free' for b, t in dest.calls())
    rep.ob(direct or not probs, 'R04.2', dest.path, 'release-all',
           'destroy() must free every managed object: it calls sweep() with the bitmap in state %s (sweep frees only objects that have a clear bit, so with a shorter/empty bitmap nothing or not everything is freed)'
           % sorted(set(probs)) if probs and not direct else 'destroy() frees every managed object', dest.loc())
    # ---- R04.3 ---------------------------------------------------------------------------------
    def for_each_over(g, blocks, word, callees):
        """`<something derived from `word`>.iter()...for_each(|x| callee(.., x))`: the standard library runs the closure once per
        element; the closure (found through the value handed to for_each) calls one of `callees`"""
        for b, t in g.calls(blocks):
            if not callee_name(t).endswith(('::for_each', '::try_for_each')) or len(t['args']) != 2:
                continue
            if word not in str(sym(g, t['args'][0])):
                continue
            d = g.def_rvalue(t['args'][1])
            cp = d[3].get('closure') if d and d[0] == 'assign' and d[3]['k'] == 'aggregate' else None
            cf = F.fns.get(cp) if cp else None
            if cf is not None and any(callee_name(t2) in callees for b2, t2 in cf.calls()):
                return True
        return False
    ca = tables.bytecode_builder(ctx)
    loops = ca.natural_loops()
    okc = for_each_over(ca, None, 'constants', (GCN + 'untrace',))
    for h, body in loops:
        unt = [b for b, t in ca.calls(body) if callee_name(t) == GCN + 'untrace']
        its = [str(sym(ca, t['args'][0])) for b, t in ca.calls() if (callee_name(t).endswith('::into_iter') and 'IntoIterator' in callee_name(t))]
        if unt and any('constants' in s_ for s_ in its):
            okc = True
    # and it precedes the construction of Bytecode on the Ok path
    rep.ob(okc, 'R04.3', ca.path, 'untrace every constant', 'the compiler\'s collector gives up every constant (loop over self.constants calling untrace) before the Bytecode is returned', ca.loc())
    header = v['header']
    dom = fn.dominators()
    pre = [b for b in dom[header] if b != header]
    pre_loops = [(h, body) for h, body in fn.natural_loops() if h != header and h in fn.reachable(0, stop={header})]
    oka = for_each_over(fn, set(fn.reachable(0, stop={header})), 'constants', (GCN + 'maybe_trace', GCN + 'trace'))
    for h, body in pre_loops:
        if any(callee_name(t) in (GCN + 'maybe_trace', GCN + 'trace') for b, t in fn.calls(body)):
            src = [str(sym(fn, t['args'][0])) for b, t in fn.calls() if (callee_name(t).endswith('::into_iter') and 'IntoIterator' in callee_name(t)) and b in fn.reachable(0, stop={header})]
            if any('constants' in s_ for s_ in src):
                oka = True
    rep.ob(oka, 'R04.3', fn.path, 'adopt every constant', 'before the dispatch loop the run\'s collector adopts every constant (loop over the constants calling maybe_trace)', fn.loc())
    halt = v['arms'].get('Halt')
    okh = False
    for r in (halt['paths'] if halt else []):
        if r['kind'] == 'ok':
            names = [c[1] for c in r['path'].calls]
            if GCN + 'untrace' in names:
                c = [c for c in r['path'].calls if c[1] == GCN + 'untrace'][0]
                ret = r['path'].env.get('_0')
                okh = ret and ret[0] == 'agg' and ret[3][0] == c[2][1]
    rep.ob(okh, 'R04.3', fn.path, 'result handed to the caller', 'Halt untraces exactly the value it returns, on the only Ok exit', 'src/vm.rs')
    # nobody else untraces
    ucs = sorted({f.path for f, b, t in F.callers_of(lambda p: p == GCN + 'untrace')})
    # a closure belongs to the function it is written in (for a helper that was spliced in: to the function it was spliced into)
    owners = {}
    for (cr_, host), helpers in F.inlined.items():
        for h_ in helpers:
            owners[h_.split('::{closure')[0]] = host
    ucs = sorted({owners.get(u.split('::{closure')[0], u.split('::{closure')[0]) for u in ucs})
    rep.ob(set(ucs) <= {ca.path, fn.path, GCN + 'untrace'}, 'R04.3', GCN + 'untrace', 'callers', 'ownership is given up only for constants and the final result: %s' % ucs, 'src/gc.rs')
    # ---- R04.4 ---------------------------------------------------------------------------------
    sw = F.fn(GCN + 'sweep')
    okx = True
    n = 0
    for p in AbsInt(F, sw, max_paths=2000).run():
        if p.exit != 'return':
            continue
        rem = [c for c in p.calls if c[1].endswith('::swap_remove') or c[1].endswith('Vec::<T, A>::remove')]
        fr = [c for c in p.calls if c[1] == 'object::Object::free']
        n += 1
        if len(rem) != len(fr):
            okx = False
        for a, b_ in zip(rem, fr):
            if deref(p.env, b_[2][0]) != ('call', a[1], a[2], a[0]):
                okx = False
    rep.ob(okx and n, 'R04.4', sw.path, 'remove/free pairing', 'each object removed from the managed list is passed to free(), and nothing else is', sw.loc())
    frc = sorted({f.path for f, b, t in F.callers_of(lambda p: p == 'object::Object::free_recursive') if f.crate == 'lib'})
    rep.ob(not frc, 'R04.4', 'object::Object::free_recursive', 'not used on managed objects',
           'free_recursive also frees the elements of an array; elements are managed objects that the collector frees itself, so using it inside the crate releases them twice: %s' % frc, 'src/object.rs')
    zs = [t for b, t in sw.calls() if callee_name(t).endswith('iter_zeros')]
    rep.ob(len(zs) == 1, 'R04.4', sw.path, 'frees the unmarked', 'the objects removed are those whose mark bit is clear (iter_zeros)', sw.loc())


def check_free_covers_heap(ctx, rep, rule):
    from rules import c15
    from rules.unsafe_inv import released_types
    F = ctx.facts()
    fn_free = F.fn('object::Object::free')
    heap = set(c15.heap_types(ctx))
    rel = released_types(ctx)
    for ty in sorted(heap | set(rel)):
        rep.ob(ty in heap and ty in rel and set(rel[ty]) == {ty}, rule, fn_free.path, 'Type::' + ty,
               'lives in a heap box: %s; Object::free releases it as %s' % (ty in heap, sorted(set(rel.get(ty, []))) or 'nothing'), fn_free.loc())
    rep.count('heap_types', len(heap))


def check_box_release(ctx, rep, rule):
    """every `dealloc(p, Layout::new::<T>())` of a box whose content owns memory (T needs drop: a Vec / String inside) is preceded, on
    every path, by `drop_in_place::<T>` of the same address — otherwise the header goes back to the allocator and the buffer it
    owns stays allocated.  Helpers the release was moved into are spliced in (generic parameters instantiated)."""
    F = ctx.facts()
    n = 0
    for f_ in F.all_fns:
        if f_.crate != 'lib':
            continue
        des = [(b, t) for b, t in f_.calls() if callee_name(t).endswith('alloc::dealloc') or callee_name(t) == 'alloc::alloc::dealloc']
        if not des:
            continue
        for p in AbsInt(F, f_, max_paths=2000).run():
            if p.exit != 'return':
                continue
            for i, c in enumerate(p.calls):
                if not (c[1].endswith('alloc::dealloc') and len(c[2]) == 2):
                    continue
                lay = c[2][1]
                lay = p.env.get(lay[1], lay) if lay[0] == 'ref' else lay
                ty = None
                if lay[0] == 'call' and lay[1].endswith('Layout::new'):
                    # the type argument of Layout::new::<T>
                    for b2, t2 in f_.calls():
                        if b2 == lay[3]:
                            ga = _split_generic_args(t2['callee'].get('generic_args'))
                            ty = ga[0] if ga else None
                adt = F.adts.get(ty) if ty else None
                n += 1
                if adt is None:
                    rep.bad(rule, f_.path, 'dealloc with layout', 'cannot tell which box type is released here (%s)' % show(lay)[:60], f_.loc())
                    continue
                if not adt.get('needs_drop'):
                    rep.good(rule, f_.path, 'release of %s' % ty.split('::')[-1], 'plain data: nothing to drop before the deallocation', f_.loc())
                    continue
                def noblk(v):
                    # Object::as_ptr is a pure accessor: two calls on the same object give the same address
                    if isinstance(v, tuple) and v and v[0] == 'call':
                        if v[1].startswith('core::ptr::') and v[1].endswith(('::cast', '::cast_mut', '::cast_const')) and len(v[2]) == 1:
                            return noblk(uncast(v[2][0]))       # a pointer cast keeps the address
                        return ('call', v[1], tuple(noblk(uncast(a)) for a in v[2]))
                    return v
                addr = noblk(uncast(c[2][0]))
                dropped = False
                for c2 in p.calls[:i]:
                    if c2[1].endswith('drop_in_place') and c2[2]:
                        a2 = noblk(uncast(c2[2][0]))
                        if a2 == addr:
                            dropped = True
                rep.ob(dropped, rule, f_.path, 'release of %s' % ty.split('::')[-1],
                       'the content of the box (which owns a buffer) is dropped in place before the box is deallocated', f_.loc())
    rep.count('box_releases', n)


SET_INSERT = ('HashSet::<T, S, A>::insert', 'BTreeSet::<T, A>::insert', 'HashSet::<T, S>::insert', 'BTreeSet::<T>::insert')
SET_HAS = ('::contains', '::contains_key', 'Iterator::any', '::binary_search')
COLL_ADD = ('Vec::<T, A>::push', 'Vec::<T, A>::extend_from_slice', 'Extend<T>>::extend', "Extend<&'a T>>::extend", 'Vec::<T, A>::append', 'Vec::<T, A>::insert',
            'VecDeque::<T, A>::push_back', 'VecDeque::<T, A>::push_front')
COLL_DRAW = ('Vec::<T, A>::pop', 'Iterator>::next', 'Iterator::next', 'VecDeque::<T, A>::pop_front', 'VecDeque::<T, A>::pop_back', 'Vec::<T, A>::swap_remove', 'Vec::<T, A>::remove')
THROUGH = ('IntoIterator>::into_iter', '::iter', '::iter_mut', '::drain', 'Deref>::deref', 'DerefMut>::deref_mut', '::as_slice', '::as_mut_slice', '::copied', '::cloned', '::rev',
           '::by_ref', '::into_iter')


def _root_local(fn, op, depth=0):
    """the local that owns what the operand designates: through `&`/`&mut` temporaries, copies, and iterator / view adaptors.
    Returns ('local', n) | ('call', callee, block) when it ends at the result of another call | None"""
    if op.get('k') not in ('copy', 'move') or depth > 12:
        return None
    l = op['place']['local']
    if l <= fn.arg_count:
        return ('local', l)
    ds = fn.defs().get(l, [])
    if len(ds) != 1:
        return ('local', l)
    d = ds[0]
    if d[0] == 'call':
        tt = fn.term(d[1])
        n = callee_name(tt)
        if n.endswith(THROUGH) and tt['args']:
            return _root_local(fn, tt['args'][0], depth + 1)
        return ('call', n, d[1], l)
    rv = d[3]
    if rv['k'] == 'ref':
        pl = rv['place']
        if pl['proj'] and pl['proj'][0] == 'deref':
            return _root_local(fn, {'k': 'copy', 'place': {'local': pl['local'], 'proj': []}}, depth + 1)
        return _root_local(fn, {'k': 'copy', 'place': {'local': pl['local'], 'proj': []}}, depth + 1) if pl['local'] != l else ('local', l)
    if rv['k'] == 'use' and rv['op'].get('k') in ('copy', 'move'):
        return _root_local(fn, {'k': 'copy', 'place': {'local': rv['op']['place']['local'], 'proj': []}}, depth + 1)
    if rv['k'] == 'cast' and rv['op'].get('k') in ('copy', 'move'):
        return _root_local(fn, {'k': 'copy', 'place': {'local': rv['op']['place']['local'], 'proj': []}}, depth + 1)
    return ('local', l)


def _fresh_guarded(fn, b):
    """block b runs only after a set answered `not seen before` for the object at hand"""
    for f in psc.facts_at(fn, b):
        if f[0] != 'callbool':
            continue
        n = f[1][1]
        # the set is keyed by the allocation's address (as_ptr / the word): Object's own `==` compares strings and floats by value, so
        # `found.contains(&o)` also answers `seen` for a different object that happens to be equal
        by_address = 'as_ptr' in str(f[1][2]) or 'ptr::eq' in str(f[1][2])
        if n.endswith(SET_INSERT) and f[2] is True and by_address:
            return True
        if n.endswith(SET_HAS) and f[2] is False and by_address:
            return True
    return False


def check_collect_after_popframe(ctx, rep, rule):
    """in every arm of the dispatch loop that both leaves a function (popframe) and runs the collector, popframe comes first on
    every path: the operand stack handed over as a root no longer contains the arguments, locals and temporaries of the function
    that has just ended"""
    from rules import vmx
    v = vmx.vmx(ctx)
    n = 0
    for op, arm in sorted(v['arms'].items()):
        for r in arm['paths']:
            p = r.get('path')
            if p is None:
                continue
            names = [c[1] for c in p.calls]
            if GCN + 'run' not in names or 'vm::VM::popframe' not in names:
                continue
            n += 1
            ok = names.index('vm::VM::popframe') < names.index(GCN + 'run')
            rep.ob(ok, rule, v['fn'].path, 'OpCode::%s collects after leaving the frame' % op,
                   'popframe() runs before GC::run on this path' if ok else 'the collector runs while the frame of the returning function is still on the stack: everything only that frame held survives this collection', 'src/vm.rs')
    rep.count('return_collections', n)


def check_free_recursive(ctx, rep, rule):
    """Object::free_recursive is how the caller of eval releases a result: `without anything remaining or being released twice`.
    Read from its MIR (helpers spliced in):
      once        - every Object::free in it runs only after a set answered `new` for that object (HashSet/BTreeSet::insert came
                    out true, or contains / any came out false), or frees what is drawn from a collection all of whose insertions
                    run under such an answer;
      everything  - the elements of an array it meets are entered (put on the work list it draws from, or passed to itself),
                    not just freed: otherwise what a nested array holds remains."""
    F = ctx.facts()
    fn = F.fn('object::Object::free_recursive')
    adds = {}
    draws = set()
    enters = []
    frees = []
    from rules.shared import LocalFlow
    lf_ = LocalFlow(fn)
    vec_views = {t_['dest']['local'] for b_, t_ in fn.calls() if callee_name(t_).startswith('object::Object::as_vec')}

    def from_elements(a):
        # the value is (a view of) the elements of an array: directly, or through a helper's match (`o.elements()`: the elements for
        # an array, an empty slice otherwise)
        if 'as_vec' in str(sym(fn, a)):
            return True
        l_ = op_base_local(a)
        return l_ is not None and lf_.reaches(l_, vec_views) is not None
    for b, t in fn.calls():
        n = callee_name(t)
        if n.endswith(COLL_ADD) and t['args']:
            r = _root_local(fn, t['args'][0])
            adds.setdefault(r, []).append(b)
            if any(from_elements(a) for a in t['args'][1:]):
                enters.append((r, b))
        if n.endswith(COLL_DRAW) and t['args']:
            draws.add(_root_local(fn, t['args'][0]))
        if n == fn.path and any('as_vec' in str(sym(fn, a)) for a in t['args']):
            enters.append(('self-call', b))
        if n == 'object::Object::free':
            frees.append((b, t))
        elif n.endswith(('::for_each', '::try_for_each')) and len(t['args']) == 2 and t['args'][1].get('k') == 'const' and t['args'][1].get('fn') == 'object::Object::free':
            frees.append((b, t))          # `found.into_iter().for_each(Object::free)`: free applied to every element drawn
    rep.ob(bool(frees), rule, fn.path, 'frees', 'the function frees objects (%d sites)' % len(frees), fn.loc())
    for k, (b, t) in enumerate(frees):
        src = None
        why = ''
        ok = _fresh_guarded(fn, b)
        if ok:
            why = 'runs only after a set answered `new` for the object'
        else:
            # what is freed: follow the argument back to the draw it came from
            op = t['args'][0]
            v = strip(sym(fn, op))
            src = 'the parameter' if v == ('param', 1) else None
            drawn = None
            l = op['place']['local'] if op.get('k') in ('copy', 'move') else None
            if callee_name(t) != 'object::Object::free':
                # the function item handed to for_each: what is freed is every element of the iterated collection
                drawn = _root_local(fn, op)
                l = None
            seen_l = set()
            while l is not None and l not in seen_l and l > fn.arg_count:
                seen_l.add(l)
                ds = fn.defs().get(l, [])
                if len(ds) != 1:
                    break
                d = ds[0]
                if d[0] == 'call':
                    tt = fn.term(d[1])
                    if callee_name(tt).endswith(COLL_DRAW) and tt['args']:
                        drawn = _root_local(fn, tt['args'][0])
                    break
                rv = d[3]
                nxt = None
                if rv['k'] in ('use', 'cast') and rv['op'].get('k') in ('copy', 'move'):
                    nxt = rv['op']['place']['local']
                elif rv['k'] == 'ref':
                    nxt = rv['place']['local']
                l = nxt
            if drawn is not None:
                if drawn[0] == 'call' and 'as_vec' in drawn[1]:
                    src = 'an element taken straight from an array'
                    why = 'a value stored in two elements is released twice, and what a nested array holds is never visited'
                elif drawn in adds:
                    ungu = [bb for bb in adds[drawn] if not _fresh_guarded(fn, bb)]
                    ok = not ungu
                    src = 'drawn from a local collection'
                    why = 'every insertion into that collection runs after a set answered `new`' if ok else \
                        'the collection it is drawn from also receives objects without a first-time test (%d of %d insertions)' % (len(ungu), len(adds[drawn]))
                    # ... and what the collection is BUILT with (`vec![self]`) went in without a test: when objects are tested as they
                    # are queued (not as they are taken out), the first one has to be entered in the set by hand, or it is met - and
                    # freed - again through an array that contains it
                    built_with = []
                    if ok and drawn[0] == 'local':
                        ds_ = fn.defs().get(drawn[1], [])
                        built_with = [d_ for d_ in ds_ if d_[0] == 'call' and not callee_name(fn.term(d_[1])).endswith(('::new', '::with_capacity', '::default'))
                                      and fn.term(d_[1])['args']]
                    elif ok and drawn[0] == 'call':
                        built_with = [drawn] if not str(drawn[1]).endswith(('::new', '::with_capacity', '::default')) else []
                    if ok and (drawn[0] in ('local', 'call')):
                        if built_with:
                            reg = False
                            for bb, tt in fn.calls():
                                if callee_name(tt).endswith(SET_INSERT) and len(tt['args']) == 2 and 'as_ptr' in str(sym(fn, tt['args'][1])) and "('param', 1)" in str(sym(fn, tt['args'][1])) \
                                        and fn.dominates(bb, b):
                                    reg = True
                            if not reg:
                                ok = False
                                why = 'objects are tested when they are queued, but the collection starts out holding the object itself, which no test has seen: an array that contains itself is released twice'
                else:
                    src = 'drawn from %s' % (drawn,)
                    why = 'no first-time test protects this release'
            elif not why:
                why = 'no first-time test protects this release (an array can hold the same object twice, or itself)'
        rep.ob(ok, rule, fn.path, 'released once: free of %s' % (src or 'an object'), why, span_loc(t['span']))
    worklist_enter = [e for e in enters if e[0] == 'self-call' or e[0] in draws]
    rep.ob(bool(worklist_enter), rule, fn.path, 'everything reachable is visited',
           'the elements of an array that is met are put on the work list the function draws from (or handed to the function itself): %d such sites' % len(worklist_enter)
           if worklist_enter else 'the elements of an array are not entered: whatever a nested array holds remains allocated', fn.loc())
