#!/usr/bin/env python3
"""selftest.py [--only NAME] [--props C01,C02]   — tests the checker both ways (DESIGN §3.4)

Every case under selftest/cases/*.json describes exact-once textual edits of /repo's sources:
  kind = "mutant":   the crate still compiles and its tests still pass, but a property clause is broken;
                     the named properties must report a NEW violation whose key contains the given fragments.
  kind = "refactor": behaviour-preserving rewrite; no property may report a new violation or a checker error.
The edited copy lives in a scratch directory outside /repo and /verif and is removed afterwards.  Nothing is
executed: the copy is only analysed (fact extraction = `cargo check`)."""
import glob
import json
import os
import shutil
import subprocess
import sys
import tempfile

HERE = os.path.dirname(os.path.abspath(__file__))
ALL = ['C%02d' % i for i in range(1, 18)]


def run_case(case, props=None, verbose=False):
    d = tempfile.mkdtemp(prefix='nlst.', dir='/tmp')
    try:
        for x in ('src', 'Cargo.toml', 'Cargo.lock', 'README.md', 'benches', 'tests', 'examples'):
            s = os.path.join('/repo', x)
            if os.path.isdir(s):
                shutil.copytree(s, os.path.join(d, x))
            elif os.path.exists(s):
                shutil.copy(s, os.path.join(d, x))
        if case.get('patch') or case.get('patch_abs'):
            r = subprocess.run(['patch', '-p1', '-s', '-d', d, '-i', case.get('patch_abs') or os.path.join(HERE, 'selftest', 'cases', case['patch'])],
                               stdout=subprocess.PIPE, stderr=subprocess.STDOUT, text=True)
            if r.returncode != 0:
                return False, 'patch does not apply: ' + r.stdout[-300:]
        for f, old, new in case.get('edits', []):
            p = os.path.join(d, f)
            t = open(p).read()
            if t.count(old) != 1:
                return False, 'edit anchor occurs %d times in %s: %r' % (t.count(old), f, old[:60])
            open(p, 'w').write(t.replace(old, new))
        want = case.get('expect', {})
        run_props = props or (sorted(want) if case['kind'] == 'mutant' and not case.get('all_props') else ALL)
        env = dict(os.environ, NL_REPO=d, NL_EVIDENCE_DIR=os.path.join(d, '_evidence'), NL_REPLAY_DIR=os.path.join(d, '_replays'))
        r = subprocess.run([sys.executable, os.path.join(HERE, 'check.py')] + run_props + ['--tier', 'quick'], env=env,
                           stdout=subprocess.PIPE, stderr=subprocess.STDOUT, text=True, timeout=900)
        out = r.stdout
        new = {}
        cur = None
        errors = []
        lines = out.split('\n')
        for i, line in enumerate(lines):
            if line.startswith('VIOLATION property='):
                pid = line.split('=')[1].split(' ')[0]
                # the preceding "    at ... : construct" line
                ctx = ' '.join(lines[max(0, i - 4):i])
                new.setdefault(pid, []).append(ctx)
            if line.startswith('CHECKER-ERROR'):
                errors.append(line)
        if verbose:
            print(out[-3000:])
        if case['kind'] == 'refactor':
            if new or errors:
                return False, 'refactor raised: %s %s' % ({k: [x[-160:] for x in v][:2] for k, v in new.items()}, errors[:2])
            return True, 'silent on %d properties' % len(run_props)
        # mutant
        for pid, frags in want.items():
            if props and pid not in props:
                continue
            got = new.get(pid, [])
            if not got:
                return False, '%s reported nothing (errors: %s)' % (pid, errors[:1])
            for fr in frags:
                if not any(fr in g for g in got):
                    return False, '%s: no violation mentions %r; got %s' % (pid, fr, [g[-200:] for g in got][:3])
        return True, 'caught by ' + ', '.join('%s(%d)' % (k, len(v)) for k, v in sorted(new.items()))
    finally:
        shutil.rmtree(d, ignore_errors=True)


def load_cases(seeded=True):
    cases = []
    for f in sorted(glob.glob(os.path.join(HERE, 'selftest', 'cases', '*.json'))):
        c = json.load(open(f))
        c['name'] = os.path.basename(f)[:-5]
        cases.append(c)
    if seeded:
        # the variants written by independent agents (seeded/): property-breaking ones must be reported by the checks recorded in
        # their meta.json, behaviour-preserving ones (seeded/refactors) must stay silent
        for f in sorted(glob.glob(os.path.join(HERE, 'seeded', 'C*', 'patch.diff'))):
            d = os.path.dirname(f)
            name = os.path.basename(d)
            try:
                meta = json.load(open(os.path.join(d, 'meta.json')))
            except (OSError, ValueError):
                meta = {}
            own = name.split('-')[0]
            fire = meta.get('checks_fire')
            if fire is None:
                by = sorted((meta.get('caught_by') or {}).keys())
            else:
                by = sorted(x for x in fire if x != 'ERROR')
            if fire is not None and not by:
                # recorded as not reported by any check (DESIGN sections 19 and 21 say why): nothing to expect - the variant is
                # kept for the record, it is not a test of the checker
                continue
            expect = {own: []} if (own in by or not by) else {by[0]: []}
            cases.append({'kind': 'mutant', 'name': 'seeded_' + name, 'patch_abs': f, 'expect': expect, 'for': own})
        for f in sorted(glob.glob(os.path.join(HERE, 'seeded', 'refactors', '*', 'patch.diff'))):
            name = os.path.basename(os.path.dirname(f))
            cases.append({'kind': 'refactor', 'name': 'seeded_' + name, 'patch_abs': f, 'for': name.split('-')[0]})
    return cases


def main():
    args = sys.argv[1:]
    only = None
    props = None
    verbose = '-v' in args
    if '--only' in args:
        only = args[args.index('--only') + 1]
    if '--props' in args:
        props = args[args.index('--props') + 1].split(',')
    ok = True
    n = 0
    for c in load_cases(seeded='--seeded' in args):
        if only and only not in c['name']:
            continue
        if props and c['kind'] == 'mutant' and not (set(props) & set(c.get('expect', {}))):
            continue
        good, why = run_case(c, props, verbose)
        n += 1
        print('%s %-8s %-40s %s' % ('ok  ' if good else 'FAIL', c['kind'], c['name'], why))
        ok = ok and good
    print('selftest: %d cases, %s' % (n, 'all as expected' if ok else 'FAILURES'))
    sys.exit(0 if ok else 1)


if __name__ == '__main__':
    main()
