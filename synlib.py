"""synlib — access to the syntax trees dumped by nlsyn."""
import os
from mirlib import CheckerError


class Syn:
    def __init__(self, j, repo):
        self.files = {}
        for f in j['files']:
            rel = os.path.relpath(f['path'], repo)
            self.files[rel] = f['items']

    def items(self, file):
        if file not in self.files:
            raise CheckerError('source file %s not found' % file)
        return self.files[file]

    def all_items(self, file):
        """items of a file, descending into non-test inline modules"""
        out = []

        def rec(items):
            for it in items:
                out.append(it)
                if it['k'] == 'mod' and it.get('items'):
                    rec(it['items'])
        rec(self.items(file))
        return out

    def impls(self, file, self_ty=None, trait=None):
        res = []
        for it in self.all_items(file):
            if it['k'] != 'impl':
                continue
            st = it['self_ty'].replace(' ', '')
            if self_ty is not None and st.split('<')[0] != self_ty:
                continue
            tr = it.get('trait')
            if trait is not None:
                if tr is None or trait not in tr.replace(' ', ''):
                    continue
            elif trait is None and self_ty is not None and False:
                pass
            res.append(it)
        return res

    def method(self, file, self_ty, name, trait=None):
        c = []
        for im in self.impls(file, self_ty, trait):
            if trait is None and im.get('trait') is not None:
                continue
            for it in im['items']:
                if it['k'] == 'fn' and it['name'] == name:
                    c.append(it)
        if len(c) != 1:
            raise CheckerError('anchor method %s::%s in %s: found %d' % (self_ty, name, file, len(c)))
        return c[0]

    def methods(self, file, self_ty):
        out = {}
        for im in self.impls(file, self_ty):
            if im.get('trait') is not None:
                continue
            for it in im['items']:
                if it['k'] == 'fn':
                    out[it['name']] = it
        return out

    def expanded(self, file, self_ty, node, depth=0):
        """copy of `node` in which every `self.helper(..)` call to a method that does not exist on the pinned tree is followed
        by that helper's body (a block), so that rules about the ORDER of calls see through helpers extracted later"""
        import copy
        from mirlib import load_pinned
        pj = load_pinned() or {}
        pinned = {p_.split('::')[-1] for p_ in pj.get('lib', {})}
        meths = self.methods(file, self_ty)

        def rec(n, d):
            if isinstance(n, list):
                return [rec(x, d) for x in n]
            if not isinstance(n, dict):
                return n
            m = {k: rec(v, d) for k, v in n.items()}
            if n.get('k') == 'mcall' and path_of(n.get('recv')) == ['self'] and n['method'] in meths and n['method'] not in pinned and d < 4:
                body = rec(copy.deepcopy(meths[n['method']]['body']), d + 1)
                return {'k': 'blockexpr', 'label': None, 'line': n.get('line'), 'helper': n['method'],
                        'block': {'stmts': [{'k': 's_expr', 'expr': m, 'semi': True}, {'k': 's_expr', 'expr': {'k': 'blockexpr', 'label': None, 'block': body}, 'semi': True}]}}
            return m
        return rec(node, depth)

    def func(self, file, name):
        c = [it for it in self.all_items(file) if it['k'] == 'fn' and it['name'] == name]
        if len(c) != 1:
            raise CheckerError('anchor function %s in %s: found %d' % (name, file, len(c)))
        return c[0]

    def enum(self, file, name):
        c = [it for it in self.all_items(file) if it['k'] == 'enum' and it['name'] == name]
        if len(c) != 1:
            raise CheckerError('anchor enum %s in %s: found %d' % (name, file, len(c)))
        return c[0]


def walk(node, fn):
    """pre-order walk over every dict node having key 'k'"""
    if isinstance(node, dict):
        if 'k' in node:
            fn(node)
        for v in node.values():
            walk(v, fn)
    elif isinstance(node, list):
        for v in node:
            walk(v, fn)


def find_all(node, pred):
    out = []
    walk(node, lambda n: out.append(n) if pred(n) else None)
    return out


def path_of(e):
    """['OpCode','Null'] for a path expression, else None"""
    if isinstance(e, dict) and e.get('k') == 'path':
        return e['path']
    return None


def is_self_field(e, name=None):
    if isinstance(e, dict) and e.get('k') == 'field' and path_of(e['base']) == ['self']:
        return name is None or e['member'] == name
    return False


def render(e, depth=0):
    """compact rendering of an expression for reports"""
    if e is None:
        return ''
    if not isinstance(e, dict):
        return str(e)
    k = e.get('k')
    if k == 'path':
        return '::'.join(e['path'])
    if k == 'lit':
        return repr(e.get('value', e.get('text')))
    if k == 'field':
        return '%s.%s' % (render(e['base']), e['member'])
    if k == 'mcall':
        return '%s.%s(%s)' % (render(e['recv']), e['method'], ', '.join(render(a) for a in e['args']))
    if k == 'call':
        return '%s(%s)' % (render(e['func']), ', '.join(render(a) for a in e['args']))
    if k == 'try':
        return render(e['expr']) + '?'
    if k == 'ref':
        return '&' + ('mut ' if e['mut'] else '') + render(e['expr'])
    if k == 'unary':
        return e['op'] + render(e['expr'])
    if k == 'binary':
        return '%s %s %s' % (render(e['l']), e['op'], render(e['r']))
    if k == 'cast':
        return '%s as %s' % (render(e['expr']), e['ty'])
    if k == 'index':
        return '%s[%s]' % (render(e['base']), render(e['index']))
    if k == 'macro':
        return '%s!(..)' % e['name']
    if k == 'tuple':
        return '(%s)' % ', '.join(render(x) for x in e['elems'])
    return '<%s@%s>' % (k, e.get('line'))


def render_pat(p):
    k = p.get('k')
    if k == 'p_ident':
        return p['name']
    if k == 'p_wild':
        return '_'
    if k == 'p_path':
        return '::'.join(p['path'])
    if k == 'p_tuple_struct':
        return '%s(%s)' % ('::'.join(p['path']), ', '.join(render_pat(x) for x in p['elems']))
    if k == 'p_struct':
        return '%s{%s}' % ('::'.join(p['path']), ', '.join(f['member'] for f in p['fields']) + (', ..' if p['rest'] else ''))
    if k == 'p_tuple':
        return '(%s)' % ', '.join(render_pat(x) for x in p['elems'])
    if k == 'p_or':
        return ' | '.join(render_pat(x) for x in p['cases'])
    if k == 'p_ref':
        return '&' + render_pat(p['pat'])
    if k == 'p_lit':
        return render(p['lit'])
    if k == 'p_range':
        return '%s..=%s' % (render(p['start']), render(p['end']))
    return '<%s>' % k
