#!/bin/bash
# builds the two fact extractors from files on disk only (offline)
set -euo pipefail
HERE="$(cd "$(dirname "$0")" && pwd)"
export CARGO_NET_OFFLINE=true
(cd "$HERE/tools/nlfacts" && LD_LIBRARY_PATH="$(rustc +nightly --print sysroot)/lib" cargo +nightly build --offline 2>&1 | tail -2)
(cd "$HERE/tools/nlsyn" && cargo build --offline 2>&1 | tail -2)
mkdir -p "$HERE/.work" "$HERE/evidence" "$HERE/replays"
test -x "$HERE/tools/nlfacts/target/debug/nlfacts"
test -x "$HERE/tools/nlsyn/target/debug/nlsyn"
echo "setup ok"
